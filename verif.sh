#!/bin/sh
# Entry point of the dig verification machinery. See DESIGN.md section 9.
#   ./verif.sh setup
#   ./verif.sh check <Cxx> <quick|thorough>
#   ./verif.sh replay <file>
# Environment: VERIF_SEED (default 1), VERIF_REPO (default /repo), VERIF_SCALE (development only).
set -e
export GOFLAGS=-mod=mod GOPROXY=off GOSUMDB=off GOTOOLCHAIN=local
ROOT=$(cd "$(dirname "$0")" && pwd)
REPO=${VERIF_REPO:-/repo}
TAG=$(printf '%s' "$REPO" | cksum | cut -d' ' -f1)
BUILD=$ROOT/.build/$TAG
BIN=$BUILD/digverif

build() {
	mkdir -p "$BUILD"
	sed "s#=> /repo#=> $REPO#" "$ROOT/harness/go.mod" > "$BUILD/go.mod"
	cp "$REPO/go.sum" "$BUILD/go.sum"
	(cd "$ROOT/harness" && go build -tags verif -modfile="$BUILD/go.mod" -o "$BIN" .) || {
		echo "INCONCLUSIVE reason=harness-build-failed"
		exit 3
	}
}

cmd=$1
case "$cmd" in
setup)
	build
	echo "setup ok: $BIN"
	;;
check)
	build
	exec "$BIN" check -prop "$2" -tier "${3:-${VERIF_TIER:-quick}}" -seed "${VERIF_SEED:-1}" -root "$ROOT" -out "${VERIF_OUT:-$ROOT}" -scale "${VERIF_SCALE:-1}"
	;;
replay)
	build
	exec "$BIN" replay "$2"
	;;
run)
	build
	shift
	exec "$BIN" run "$@"
	;;
*)
	echo "usage: $0 setup | check <Cxx> <quick|thorough> | replay <file>" >&2
	exit 2
	;;
esac
