#!/bin/sh
# Entry point of the dig verification machinery. See DESIGN.md section 9.
#   ./verif.sh setup
#   ./verif.sh check <Cxx> <quick|thorough>
#   ./verif.sh replay <file>
# Environment: VERIF_SEED (default 1), VERIF_REPO (default /repo), VERIF_SCALE (development only).
set -e
export GOFLAGS=-mod=mod GOPROXY=off GOSUMDB=off GOTOOLCHAIN=local
ROOT=$(cd "$(dirname "$0")" && pwd)
REPO=${VERIF_REPO:-/repo}
TAG=$(printf '%s' "$REPO" | cksum | cut -d' ' -f1)
BUILD=$ROOT/.build/$TAG
BIN=$BUILD/digverif

build() {
	mkdir -p "$BUILD"
	sed "s#=> /repo#=> $REPO#" "$ROOT/harness/go.mod" > "$BUILD/go.mod"
	cp "$REPO/go.sum" "$BUILD/go.sum"
	(cd "$ROOT/harness" && go build -tags verif -modfile="$BUILD/go.mod" -o "$BIN" .) || {
		echo "INCONCLUSIVE reason=harness-build-failed"
		exit 3
	}
}

cmd=$1
case "$cmd" in
setup)
	build
	echo "setup ok: $BIN"
	;;
check)
	build
	exec "$BIN" check -prop "$2" -tier "${3:-${VERIF_TIER:-quick}}" -seed "${VERIF_SEED:-1}" -root "$ROOT" -out "${VERIF_OUT:-$ROOT}" -scale "${VERIF_SCALE:-1}"
	;;
replay)
	build
	exec "$BIN" replay "$2"
	;;
race)
	# sanitizer build: independent containers on 16 goroutines under the race detector (implies checkptr)
	mkdir -p "$BUILD" "$ROOT/reports" "$ROOT/.work"
	sed "s#=> /repo#=> $REPO#" "$ROOT/harness/go.mod" > "$BUILD/go.mod"
	cp "$REPO/go.sum" "$BUILD/go.sum"
	(cd "$ROOT/harness" && go build -race -tags verif -modfile="$BUILD/go.mod" -o "$BIN-race" .) || { echo "INCONCLUSIVE reason=race-build-failed"; exit 3; }
	rm -f "$ROOT/.work"/race.log.*
	out=$ROOT/reports/race.txt
	: > "$out"
	for prof in general decor faults groups scopes; do
		GORACE="halt_on_error=0 exitcode=0 log_path=$ROOT/.work/race.log" "$BIN-race" stress -g 16 -n "${VERIF_RACE_N:-600}" -seed "${VERIF_SEED:-1}" -profile $prof >> "$out" 2>&1 || true
	done
	races=$(cat "$ROOT/.work"/race.log.* 2>/dev/null | grep -c "WARNING: DATA RACE" || true)
	fatal=$(grep -c "fatal error" "$out" || true)
	echo "race detector reports: $races; fatal errors (checkptr etc.): $fatal" >> "$out"
	cat "$out"
	if [ "$races" != "0" ]; then mkdir -p "$ROOT/reports"; cat "$ROOT/.work"/race.log.* | head -200 > "$ROOT/reports/race-reports.txt"; fi
	rm -f "$ROOT/.work"/race.log.* "$BIN-race"
	;;
cover)
	# reach: statement coverage of dig by the monitored workloads (not an oracle)
	mkdir -p "$BUILD" "$ROOT/reports" "$ROOT/.work/cov"
	sed "s#=> /repo#=> $REPO#" "$ROOT/harness/go.mod" > "$BUILD/go.mod"
	cp "$REPO/go.sum" "$BUILD/go.sum"
	(cd "$ROOT/harness" && go build -cover -coverpkg=digverif,go.uber.org/dig,go.uber.org/dig/internal/dot,go.uber.org/dig/internal/graph,go.uber.org/dig/internal/digreflect,go.uber.org/dig/internal/digclock -tags verif -modfile="$BUILD/go.mod" -o "$BIN-cover" .) || { echo "INCONCLUSIVE reason=cover-build-failed"; exit 3; }
	rm -rf "$ROOT/.work/cov"; mkdir -p "$ROOT/.work/cov"
	for p in C01 C04 C05 C06 C07 C12 C13 C14 C15 C16 C17 C18 C19 C20; do
		GOCOVERDIR="$ROOT/.work/cov" "$BIN-cover" check -prop $p -tier quick -seed "${VERIF_SEED:-1}" -root "$ROOT" -out "$ROOT/.work/covout" -scale 0.1 > /dev/null 2>&1
	done
	(cd "$ROOT/harness" && go tool covdata percent -i="$ROOT/.work/cov" 2>&1 | grep "go.uber.org/dig") | tee "$ROOT/reports/coverage.txt"
	(cd "$ROOT/harness" && go tool covdata textfmt -i="$ROOT/.work/cov" -o "$ROOT/.work/cov.txt" && GOFLAGS="$GOFLAGS -modfile=$BUILD/go.mod" go tool cover -func="$ROOT/.work/cov.txt" 2>/dev/null | grep -v "100.0%" | grep "go.uber.org/dig" | sort -k3 -n | head -60) >> "$ROOT/reports/coverage.txt"
	rm -rf "$ROOT/.work/cov" "$ROOT/.work/covout" "$ROOT/.work/cov.txt" "$BIN-cover"
	;;
run)
	build
	shift
	exec "$BIN" run "$@"
	;;
*)
	echo "usage: $0 setup | check <Cxx> <quick|thorough> | replay <file>" >&2
	exit 2
	;;
esac
