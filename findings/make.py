#!/usr/bin/env python3
"""Builds the replay files of the confirmed findings (DESIGN.md section 7) from a small DSL.
Key syntax: V1 | V1/n1 (name) | V1@g1 (group); suffix ? optional, ~ soft, *3 flatten of 3, !2 whole group of 2."""
import json, os, re
T={"V0":0,"V1":1,"V2":2,"V3":3,"V4":4,"V5":5,"V6":6,"V7":7,"I0":16,"I1":17,"I2":18,"I3":19}
def key(s):
    m=re.match(r'^([VI]\d)(?:/(\w+))?(?:@(\w+))?',s)
    k={"t":T[m.group(1)]}
    if m.group(2): k["n"]=m.group(2)
    if m.group(3): k["g"]=m.group(3)
    return k, s[m.end():]
def param(s):
    k,rest=key(s); p={"k":k}
    if "?" in rest: p["opt"]=True
    if "~" in rest: p["soft"]=True
    return p
def res(s):
    k,rest=key(s); r={"k":k}
    m=re.search(r'\*(\d+)',rest)
    if m: r["flat"]=True; r["n"]=int(m.group(1))
    m=re.search(r'!(\d+)',rest)
    if m: r["whole"]=True; r["n"]=int(m.group(1))
    return r
class H:
    def __init__(s,**opts): s.fns=[]; s.ops=[]; s.opts=opts
    def fn(s,params=(),results=(),err=False,faults=None,pool=0):
        f={"id":len(s.fns)}
        if params: f["p"]=[param(x) for x in params]
        if results: f["r"]=[res(x) for x in results]
        if err: f["e"]=True
        if faults: f["f"]=faults
        if pool: f["pool"]=pool
        s.fns.append(f); return f["id"]
    def scope(s,parent=0): s.ops.append({"k":"scope","s":parent})
    def op(s,kind,scope,fn,**kw):
        o={"k":kind,"s":scope,"fn":fn}; o.update(kw); s.ops.append(o)
    def provide(s,scope,params=(),results=(),err=False,faults=None,**kw): s.op("provide",scope,s.fn(params,results,err,faults),**kw)
    def decorate(s,scope,params=(),results=(),err=False,faults=None,**kw): s.op("decorate",scope,s.fn(params,results,err,faults),**kw)
    def invoke(s,scope,params=(),err=False,faults=None,**kw):
        f=s.fn(params,(),err,faults); s.op("invoke",scope,f,**kw); return f
    def reinvoke(s,scope,f,**kw): s.op("invoke",scope,f,**kw)
    def visualize(s,**kw): o={"k":"visualize","s":0}; o.update(kw); s.ops.append(o)
    def string(s): s.ops.append({"k":"string","s":0})
    def case(s,kind="hist:general"): return {"kind":kind,"history":{"opts":s.opts,"fns":s.fns,"ops":s.ops}}
out=os.path.dirname(os.path.abspath(__file__))
def emit(name,prop,rule,h,what,kind="hist:general"):
    rf={"property":prop,"rule":rule,"class":"finding","props":[prop],"msg":what,"seed":0,"kind":kind,"idx":0,"case":h.case(kind)}
    json.dump(rf,open(os.path.join(out,name+".json"),"w"),indent=1)

# F1: Decorate(nil) / Decorate(42) panics
h=H(); h.provide(0,[],["V0"]); h.decorate(0,["V0"],["V0"],inv="nil"); h.invoke(0,["V0"])
emit("F01a-decorate-nil","C14","C14.panic",h,"Decorate(nil) panics instead of returning an error")
h=H(); h.provide(0,[],["V0"]); h.decorate(0,["V0"],["V0"],inv="nonfunc"); h.invoke(0,["V0"])
emit("F01b-decorate-nonfunc","C14","C14.panic",h,"Decorate(42) panics instead of returning an error")
# F2: flatten + As on a named slice type panics
h=H(); h.provide(0,[],["V0"],inv="flatten-as"); h.invoke(0,["V0?"])
emit("F02-flatten-as","C14","C14.panic",h,"Provide(func() S, Group(\"g,flatten\"), As(new(I))) panics (reflect: Elem of invalid type)")
# F3: cycle detected in a descendant scope leaves the rejected constructor in the target scope's providers
h=H(); h.scope(0); h.provide(1,["V0"],["V1"]); h.provide(0,["V1"],["V0"]); h.provide(0,[],["V0"]); h.invoke(1,["V1"])
emit("F03-cycle-rollback-wrong-scope","C06","C09.valid-rejected",h,"root Provide rejected for a cycle seen in a child scope stays in the root's providers: later Provide of the same key says already provided")
# F4: multi-key Decorate conflict registers earlier keys before failing
h=H(); h.provide(0,[],["V1"]); h.decorate(0,[],["V1/n1"]); h.decorate(0,[],["V1","V1/n1"]); h.invoke(0,["V1"])
emit("F04-multikey-decorate-partial","C06","C06.rejected-function-executed",h,"Decorate rejected on its 2nd key stays registered for its 1st key and later runs")
# F5: decorator failure leaves it on-stack: next Invoke silently skips it
h=H(); h.provide(0,[],["V0"]); h.decorate(0,["V0"],["V0"],err=True,faults={"1":"err"}); f=h.invoke(0,["V0"]); h.reinvoke(0,f)
emit("F05a-decorator-error-skipped","C07","C07.tainted",h,"decorator returns (v, err) once; the next Invoke delivers v (returned alongside the error) and never re-runs the decorator")
h=H(); h.provide(0,[],["V0"]); h.provide(0,[],["V1"],err=True,faults={"1":"err"}); h.decorate(0,["V0","V1"],["V0"]); f=h.invoke(0,["V0"]); h.reinvoke(0,f)
emit("F05b-decorator-depfail-skipped","C12","C12.dec-not-done",h,"a decorator whose dependency failed once is silently skipped by the next Invoke: consumer receives the undecorated value")
# F6: cross-sibling Export cycle -> fatal stack overflow
h=H(); h.scope(0); h.scope(0)
h.provide(2,["V3"],["V4"],x=True); h.provide(1,["V2"],["V5"],x=True); h.provide(1,["V4"],["V2"]); h.provide(2,["V5"],["V3"]); h.invoke(1,["V2"])
emit("F06-export-sibling-cycle","C05","process-died",h,"cycle through two exported constructors of sibling scopes is invisible to every scope graph: Invoke overflows the stack")
# F7: Scope() does not copy orders of group nodes -> spurious cycle in late child
h=H(); h.provide(0,["V1"],["V2"]); h.provide(0,["V0@g1"],["V1"]); h.scope(0); h.provide(1,[],["V3"])
emit("F07-late-scope-group-order","C05","C05.spurious-cycle",h,"child scope created after a group-consuming constructor rejects any Provide with a bogus cycle")
# F8: constructor re-entered through a decorator
h=H(); h.provide(0,["V1"],["V0"]); h.provide(0,[],["V1"]); h.decorate(0,["V1","V0"],["V1"]); h.invoke(0,["V0"])
emit("F08-reentered-through-decorator","C02","C02.twice",h,"P(B)->A, provider of B, decorator D(B,A)->B: P is entered while it is being built and executes twice")
# F9: Group(",flatten"): empty group name collides with the unnamed key
h=H(); h.provide(0,[],["V0"],inv="empty-group-flatten"); h.invoke(0,["V0?"])
emit("F09-empty-group-name","C14","C14.invalid-accepted",h,"Provide(func() []V, Group(\",flatten\")) is accepted under the unnamed key")
# F10: optional:"maybe" root cause is *strconv.NumError
h=H(); h.provide(0,[],["V0"],inv="bad-optional"); h.invoke(0,["V0?"])
emit("F10a-bad-optional-rootcause","C13","C13.non-dig-rejection",h,"optional:\"maybe\": RootCause is *strconv.NumError, not a dig.Error")
h=H(); h.provide(0,[],["V0"],inv="bad-ignore-unexported"); h.invoke(0,["V0?"])
emit("F10b-bad-ignore-unexported-rootcause","C13","C13.non-dig-rejection",h,"ignore-unexported:\"maybe\": RootCause is *strconv.NumError, not a dig.Error")
# F12: typed-nil funcs accepted
h=H(); h.provide(0,[],["V0"],inv="typednil"); h.visualize(); h.invoke(0,["V0?"])
emit("F12a-typednil-provide","C14","C14.invalid-accepted",h,"typed-nil constructor accepted by Provide (Visualize then nil-dereferences)")
h=H(); h.provide(0,[],["V0"]); h.invoke(0,["V0"],inv="typednil")
emit("F12b-typednil-invoke","C14","C14.panic",h,"Invoke of a typed-nil function panics")
h=H(); h.provide(0,[],["V0"]); h.decorate(0,["V0"],["V0"],inv="typednil"); h.invoke(0,["V0"])
emit("F12c-typednil-decorate","C14","C14.invalid-accepted",h,"typed-nil decorator accepted by Decorate")
print("ok")
# F13: a key that only a decorator produces: the consumer's shallow check depended on whether the decorator had already run
h=H(); h.decorate(0,[],["V2"]); h.provide(0,["V2"],["V1"]); h.invoke(0,["V1"])
emit("F13-decorated-unprovided-key","C16","C04.should-succeed",h,"Decorate(func() V2); Provide(func(V2) V1); Invoke(func(V1)) fails with a missing type unless some earlier Invoke happened to run the decorator: outcome depends on operation order")
# F14: a decorator result tagged flatten is accepted; the [][]T it returns is then delivered to consumers of []T
h=H(); h.provide(0,[],["V0@g1"]); h.decorate(0,[],["V1"],inv="decorate-flatten-group"); h.invoke(0,["V0@g1"])
emit("F14-decorate-flatten-group","C14","C14.panic",h,"Decorate accepts a result field [][]T tagged group:\"g,flatten\"; the next Invoke consuming []T of that group panics (reflect.Set: value of type [][]T is not assignable to type []T)")
# F15: an optional dependency hides an error RETURNED by a constructor (or decorator) when that error wraps a dig
# "missing dependencies" error of another container (sub-container pattern): Invoke succeeds with a zero value
h=H(); h.provide(0,[],["V0"],err=True,faults={"1":"digerr"}); h.provide(0,["V0?"],["V1"]); h.invoke(0,["V1"])
emit("F15a-optional-hides-constructor-error","C07","C07.failure-hidden",h,"constructor returns an error wrapping another container's missing-dependencies error; its optional consumer gets the zero value and Invoke returns nil",kind="hist:faults")
h=H(); h.provide(0,[],["V0"]); h.decorate(0,["V0"],["V0"],err=True,faults={"1":"digerr"}); h.provide(0,["V0"],["V2"]); h.provide(0,["V2?"],["V1"]); h.invoke(0,["V1"])
emit("F15b-optional-hides-decorator-error","C07","C07.failure-hidden",h,"decorator returns an error wrapping another container's missing-dependencies error; an optional edge above its consumer swallows the failure and Invoke returns nil",kind="hist:faults")
# F16 (known, not repaired): RootCause looks through a user error that wraps a foreign dig error
h=H(); h.provide(0,[],["V0"],err=True,faults={"1":"digerr"}); h.invoke(0,["V0"])
emit("F16-rootcause-through-user-error","C13","C13.rootcause-nested-dig-error",h,"constructor returns an error wrapping another container's dig error: RootCause(err) is the foreign error's root cause, not the constructor's error",kind="hist:faults")
# F17: dig.As listing the result's own interface type together with another interface drops the own type
h=H(); h.provide(0,[],["I3"],**{"as":[19,16]}); h.invoke(0,["I0"]); h.invoke(0,["I3"])
emit("F17-as-own-type-dropped","C09","C04.should-succeed",h,"Provide(func() I3, As(new(I3), new(I0))): the value is available as I0 only, although I3 is listed",kind="hist:keys")
# F18: a grouped result with the same interface listed twice in dig.As is delivered twice
h=H(); h.provide(0,[],["V0@g1"],**{"as":[16,16],"go":"g1"}); h.invoke(0,["I0@g1"])
emit("F18-group-duplicate-as","C10","C10.group-content",h,"Provide(func() V0, Group(\"g1\"), As(new(I0), new(I0))): consumers of []I0 in g1 receive the member twice",kind="hist:groups")
# F24: a value-group consumer (or decorator result) declared with a NAMED slice type misses the group decoration
h=H(); h.provide(0,[],["V0@g1"]); h.decorate(0,[],["V0@g1!2"]); h.invoke(0,["V0@g1"]); h.fns[-1]["p"][0]["sl"]=1
emit("F24a-named-slice-consumer-undecorated","C12","C12.group-decorated-content",h,"decorator returns []V0 for group g1; a consumer declaring the group as the named slice type SV0 receives the undecorated members",kind="hist:decor")
h=H(); h.scope(0); h.provide(0,[],["V0@g1"]); h.decorate(0,[],["V0@g1!1"]); h.decorate(1,[],["V0@g1!2"]); h.fns[-1]["r"][0]["sl"]=2; h.invoke(1,["V0@g1"])
emit("F24b-named-slice-decorator-bypassed","C12","C12.group-decorated-content",h,"the child's group decorator returns the named slice type TV0: a []V0 consumer in the child receives the ROOT decorator's output",kind="hist:decor")
# F25 (known, not repaired): IsCycleDetected looks through a user error that wraps a foreign cycle rejection
h=H(); h.provide(0,[],["V0"],err=True,faults={"1":"digcycerr"}); h.invoke(0,["V0"])
emit("F25-foreign-cycle-misclassified","C13","C13.foreign-cycle-misclassified",h,"constructor returns an error wrapping another container's cycle rejection: IsCycleDetected(err) is true",kind="hist:faults")
# F28 (known, not repaired): errors.Is with a raw foreign dig "missing dependencies" error as the target panics
h=H(); h.provide(0,[],["V0"],err=True,faults={"1":"rawdigerr"}); h.invoke(0,["V0"])
emit("F28-errors-is-panics","C13","C13.errors-is-panics",h,"constructor returns another container's missing-dependencies error as it is: errors.Is(err, thatError) panics (comparing uncomparable type dig.errMissingTypes)",kind="hist:faults")
