package main

import (
	"reflect"

	. "digverif/vt"
)

const (
	nCarriers  = 8
	tPtrBase   = 8  // 8..15: *V0..*V7
	tIfaceBase = 16 // 16..19: I0..I3
	tBundle    = 20 // VB: a plain struct of two carriers
	tAny       = 21 // interface{}: any value is assignable to it, so a mixed-up key is delivered silently
	tSliceV    = 22 // VS: a named type of slice kind; its nil value is a legitimate (token-less) group member
	tTwinA     = 23 // two distinct interface types (method M0) that print identically
	tTwinB     = 24
	tMapV      = 25 // VM, VF, VA: values of map, func and array kind
	tFuncV     = 26
	tArrV      = 27
	tEmbV      = 28 // VE: a plain struct embedding two structs
	nTypes     = 29
)

var typeTab [nTypes]reflect.Type
var typeName [nTypes]string

func init() {
	cs := []interface{}{V0{}, V1{}, V2{}, V3{}, V4{}, V5{}, V6{}, V7{}}
	for i, c := range cs {
		typeTab[i] = reflect.TypeOf(c)
		typeTab[tPtrBase+i] = reflect.PointerTo(typeTab[i])
	}
	typeTab[16] = reflect.TypeOf((*I0)(nil)).Elem()
	typeTab[17] = reflect.TypeOf((*I1)(nil)).Elem()
	typeTab[18] = reflect.TypeOf((*I2)(nil)).Elem()
	typeTab[19] = reflect.TypeOf((*I3)(nil)).Elem()
	typeTab[tBundle] = reflect.TypeOf(VB{})
	typeTab[tAny] = reflect.TypeOf((*interface{})(nil)).Elem()
	typeTab[tSliceV] = reflect.TypeOf(VS{})
	typeTab[tTwinA], typeTab[tTwinB] = TwinA(), TwinB()
	typeTab[tMapV], typeTab[tFuncV], typeTab[tArrV] = reflect.TypeOf(VM{}), reflect.TypeOf(VF(nil)), reflect.TypeOf(VA{})
	typeTab[tEmbV] = reflect.TypeOf(VE{})
	for i := range typeTab {
		typeName[i] = typeTab[i].String()
	}
}

func isIface(t int) bool {
	return (t >= tIfaceBase && t < tBundle) || t == tAny || t == tTwinA || t == tTwinB
}

// asPtr returns a pointer to a nil interface of iface type t, as dig.As wants.
func asPtr(t int) interface{} {
	return reflect.New(typeTab[t]).Interface()
}

func implements(t, iface int) bool { return typeTab[t].Implements(typeTab[iface]) }

// mkVal builds a value of universe type t carrying tok. For an interface
// type the dynamic value is the first carrier implementing it.
func mkVal(t int, tok *Tok) reflect.Value {
	rt := typeTab[t]
	switch {
	case t == tEmbV:
		return reflect.ValueOf(VE{VEa: VEa{T: tok}})
	case t == tMapV:
		return reflect.ValueOf(VM{"t": tok})
	case t == tFuncV:
		return reflect.ValueOf(VF(func() *Tok { return tok }))
	case t == tArrV:
		return reflect.ValueOf(VA{tok})
	case t == tSliceV:
		v := reflect.MakeSlice(rt, 1, 1)
		v.Index(0).Set(mkVal(0, tok))
		return v
	case t == tBundle:
		v := reflect.New(rt).Elem()
		v.Field(0).Set(mkVal(4, tok))
		v.Field(1).Set(mkVal(7, tok))
		return v
	case t < tPtrBase:
		v := reflect.New(rt).Elem()
		v.Field(0).Set(reflect.ValueOf(tok))
		return v
	case t < tIfaceBase:
		p := reflect.New(rt.Elem())
		p.Elem().Field(0).Set(reflect.ValueOf(tok))
		return p
	default:
		for c := 0; c < nCarriers; c++ {
			if implements(c, t) {
				v := reflect.New(rt).Elem()
				v.Set(mkVal(c, tok))
				return v
			}
		}
	}
	panic("mkVal")
}

// alienTok stands for a delivered value that no harness function produced.
var alienTok = &Tok{Fn: -1, Exec: -1}

// tokOf extracts the token of a value of any universe type (nil for zero values).
func tokOf(v reflect.Value) *Tok {
	for v.Kind() == reflect.Interface || v.Kind() == reflect.Ptr {
		if v.IsNil() {
			return nil
		}
		v = v.Elem()
	}
	switch v.Type() {
	case typeTab[tMapV]:
		return v.Interface().(VM)["t"]
	case typeTab[tFuncV]:
		if f := v.Interface().(VF); f != nil {
			return f()
		}
		return nil
	case typeTab[tArrV]:
		return v.Interface().(VA)[0]
	}
	if v.Kind() == reflect.Slice && v.Type() == typeTab[tSliceV] {
		if v.Len() == 0 {
			return nil
		}
		return tokOf(v.Index(0))
	}
	if v.Kind() == reflect.Slice || v.Kind() == reflect.Map || v.Kind() == reflect.Func || v.Kind() == reflect.Chan {
		// something that is no value of the universe at all (e.g. a whole slice delivered where one
		// element of type interface{} was asked for)
		return alienTok
	}
	if v.Kind() != reflect.Struct || v.NumField() == 0 {
		return nil
	}
	if v.Field(0).Kind() == reflect.Struct {
		return tokOf(v.Field(0)) // VB: the token of its first carrier
	}
	t, _ := v.Field(0).Interface().(*Tok)
	return t
}

// namedSlice[fam-1][t]: the declared named slice type of family fam (1: SVt, 2: TVt) for carrier t.
var namedSlice = [2][nCarriers]reflect.Type{
	{reflect.TypeOf(SV0{}), reflect.TypeOf(SV1{}), reflect.TypeOf(SV2{}), reflect.TypeOf(SV3{}), reflect.TypeOf(SV4{}), reflect.TypeOf(SV5{}), reflect.TypeOf(SV6{}), reflect.TypeOf(SV7{})},
	{reflect.TypeOf(TV0{}), reflect.TypeOf(TV1{}), reflect.TypeOf(TV2{}), reflect.TypeOf(TV3{}), reflect.TypeOf(TV4{}), reflect.TypeOf(TV5{}), reflect.TypeOf(TV6{}), reflect.TypeOf(TV7{})},
}

// sliceTypeOf: the Go slice type for element type t; fam 1 or 2 selects a named slice type when the
// element is a carrier.
func sliceTypeOf(t, fam int) reflect.Type {
	if fam >= 1 && fam <= 2 && t < nCarriers {
		return namedSlice[fam-1][t]
	}
	return reflect.SliceOf(typeTab[t])
}
