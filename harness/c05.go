package main

import (
	"fmt"
	"math/rand"

	"go.uber.org/dig"
)

// ---- E-graph: the real cycle search on arbitrary digraphs (hook VerifIsAcyclic) ----

type GraphCase struct {
	N     int     `json:"n"`
	Edges [][]int `json:"edges"`
	// Exhaustive: enumerate every digraph with N nodes (Edges unused); with Parts > 0 only the
	// slice Part of Parts of the enumeration.
	Exhaustive bool `json:"exhaustive,omitempty"`
	Part       int  `json:"part,omitempty"`
	Parts      int  `json:"parts,omitempty"`
	// Batch > 0: Batch random digraphs from Seed (Edges unused).
	Batch int   `json:"batch,omitempty"`
	Seed  int64 `json:"seed,omitempty"`
}

// kahnAcyclic is the independent reference: a digraph is acyclic iff all nodes can be peeled by in-degree.
func kahnAcyclic(n int, adj [][]int) bool {
	indeg := make([]int, n)
	for u := 0; u < n; u++ {
		for _, v := range adj[u] {
			indeg[v]++
		}
	}
	var q []int
	for u := 0; u < n; u++ {
		if indeg[u] == 0 {
			q = append(q, u)
		}
	}
	seen := 0
	for len(q) > 0 {
		u := q[0]
		q = q[1:]
		seen++
		for _, v := range adj[u] {
			indeg[v]--
			if indeg[v] == 0 {
				q = append(q, v)
			}
		}
	}
	return seen == n
}

func hasEdge(adj [][]int, u, v int) bool {
	for _, x := range adj[u] {
		if x == v {
			return true
		}
	}
	return false
}

// checkDigraph pushes one digraph through the real search and judges the answer.
func checkDigraph(n int, adj [][]int) string {
	var ok bool
	var path []int
	var pan interface{}
	// a logical budget instead of a clock: a search that remembers what it has visited asks for the successors
	// of each node once; 100*n*n+1000 look-ups is far beyond any reasonable algorithm and still cheap to reach
	budget := 100*n*n + 1000
	var steps int
	var exceeded bool
	func() {
		defer func() { pan = recover() }()
		ok, path, steps, exceeded = dig.VerifIsAcyclicSteps(n, adj, budget)
	}()
	if pan != nil {
		return fmt.Sprintf("cycle search panicked: %v", pan)
	}
	if exceeded {
		return fmt.Sprintf("cycle search on %d nodes did not finish within %d successor look-ups (it does not terminate, or it is exponential)", n, budget)
	}
	_ = steps
	want := kahnAcyclic(n, adj)
	if ok != want {
		return fmt.Sprintf("cycle search says acyclic=%v, reference says %v", ok, want)
	}
	if ok {
		if len(path) != 0 {
			return fmt.Sprintf("acyclic verdict with non-empty path %v", path)
		}
		return ""
	}
	if len(path) < 2 {
		return fmt.Sprintf("cyclic verdict with path %v (length < 2)", path)
	}
	if path[0] != path[len(path)-1] {
		return fmt.Sprintf("reported cycle path %v is not closed", path)
	}
	for i := 0; i < len(path); i++ {
		if path[i] < 0 || path[i] >= n {
			return fmt.Sprintf("reported cycle path %v leaves the node range", path)
		}
		if i+1 < len(path) && !hasEdge(adj, path[i], path[i+1]) {
			return fmt.Sprintf("reported cycle path %v uses the non-edge %d->%d", path, path[i], path[i+1])
		}
	}
	return ""
}

func adjFromBits(n int, bits uint64) [][]int {
	adj := make([][]int, n)
	for u := 0; u < n; u++ {
		for v := 0; v < n; v++ {
			if bits&(1<<uint(u*n+v)) != 0 {
				adj[u] = append(adj[u], v)
			}
		}
	}
	return adj
}

func checkGraphCase(g *GraphCase) *CaseResult {
	res := &CaseResult{Stats: map[string]int{}, Situ: map[string]int{}, Relevant: true}
	report := func(n int, adj [][]int, msg string) {
		if len(res.Viol) == 0 {
			res.Viol = append(res.Viol, Violation{Props: []string{"C05"}, Rule: "C05.graph-search",
				Msg: fmt.Sprintf("digraph n=%d adj=%v: %s", n, adj, msg)})
		}
	}
	switch {
	case g.Exhaustive:
		total := uint64(1) << uint(g.N*g.N)
		lo, hi := uint64(0), total
		if g.Parts > 0 {
			lo = total / uint64(g.Parts) * uint64(g.Part)
			hi = total / uint64(g.Parts) * uint64(g.Part+1)
		}
		for bits := lo; bits < hi; bits++ {
			adj := adjFromBits(g.N, bits)
			res.Stats["graph.checked"]++
			if kahnAcyclic(g.N, adj) {
				res.Stats["graph.acyclic"]++
			}
			if msg := checkDigraph(g.N, adj); msg != "" {
				report(g.N, adj, msg)
			}
		}
		res.Shape = hashStrings([]string{"exh", fmt.Sprint(g.N, g.Part, g.Parts)})
	case g.Batch > 0:
		r := rand.New(rand.NewSource(g.Seed))
		for i := 0; i < g.Batch; i++ {
			n := g.N
			if n == 0 {
				n = 5 + r.Intn(4)
			}
			adj := make([][]int, n)
			if g.N == 0 && i%8 == 7 {
				// a LARGE graph (65-260 nodes: more than one machine word of nodes): a sparse DAG over a random
				// order, or a layered DAG in which every node of a layer needs every node of the next one (cheap
				// with a visited set, exponential without), in half of the cases with one back edge between
				// late nodes
				n = 65 + r.Intn(196)
				adj = make([][]int, n)
				res.Stats["graph.large"]++
				if r.Intn(3) == 0 {
					w := 2 + r.Intn(2)
					for u := 0; u+w < n; u++ {
						base := (u/w + 1) * w
						for v := base; v < base+w && v < n; v++ {
							adj[u] = append(adj[u], v)
						}
					}
				} else {
					for u := 1; u < n; u++ {
						for k := r.Intn(3); k > 0; k-- {
							adj[u] = append(adj[u], r.Intn(u))
						}
					}
				}
				if r.Intn(2) == 0 {
					a := 64 + r.Intn(n-64)
					b := 64 + r.Intn(n-64)
					adj[a] = append(adj[a], b)
					adj[b] = append(adj[b], a)
				}
			} else {
				density := r.Float64() * 0.5
				for u := 0; u < n; u++ {
					for v := 0; v < n; v++ {
						if r.Float64() < density {
							adj[u] = append(adj[u], v)
							if r.Intn(10) == 0 {
								adj[u] = append(adj[u], v) // parallel edge
							}
						}
					}
					r.Shuffle(len(adj[u]), func(a, b int) { adj[u][a], adj[u][b] = adj[u][b], adj[u][a] })
				}
			}
			res.Stats["graph.checked"]++
			if kahnAcyclic(n, adj) {
				res.Stats["graph.acyclic"]++
			}
			if msg := checkDigraph(n, adj); msg != "" {
				report(n, adj, msg)
			}
		}
		res.Shape = hashStrings([]string{"batch", fmt.Sprint(g.Seed)})
	default:
		res.Stats["graph.checked"]++
		if msg := checkDigraph(g.N, g.Edges); msg != "" {
			report(g.N, g.Edges, msg)
		}
		res.Shape = hashStrings([]string{fmt.Sprint(g.N, g.Edges)})
	}
	return res
}

// ---- exhaustive small dig programs ----

var smallTrees = [][]int{{-1}, {-1, 0}, {-1, 0, 1}, {-1, 0, 0}}

type smallDims struct {
	n, bits, tree, assign, export, order, late, deferV int
}

func factorial(n int) int {
	f := 1
	for i := 2; i <= n; i++ {
		f *= i
	}
	return f
}

func ipow(b, e int) int {
	r := 1
	for i := 0; i < e; i++ {
		r *= b
	}
	return r
}

// smallSpace: number of programs with exactly n constructors.
func smallSpace(n int) int {
	trees := 0
	for _, t := range smallTrees {
		trees += ipow(len(t), n)
	}
	return (1 << uint(n*n)) * trees * (1 << uint(n)) * factorial(n) * 2 * 2
}

func smallTotal() int { return smallSpace(1) + smallSpace(2) + smallSpace(3) }

// decodeSmall maps an index of the enumeration to its dimensions.
func decodeSmall(idx int) smallDims {
	var d smallDims
	for n := 1; n <= 3; n++ {
		if idx < smallSpace(n) {
			d.n = n
			break
		}
		idx -= smallSpace(n)
	}
	n := d.n
	d.deferV = idx % 2
	idx /= 2
	d.late = idx % 2
	idx /= 2
	d.order = idx % factorial(n)
	idx /= factorial(n)
	d.export = idx % (1 << uint(n))
	idx /= 1 << uint(n)
	d.bits = idx % (1 << uint(n*n))
	idx /= 1 << uint(n*n)
	for t, tr := range smallTrees {
		sz := ipow(len(tr), n)
		if idx < sz {
			d.tree, d.assign = t, idx
			break
		}
		idx -= sz
	}
	return d
}

func nthPerm(n, k int) []int {
	items := make([]int, n)
	for i := range items {
		items[i] = i
	}
	var out []int
	for i := n; i > 0; i-- {
		f := factorial(i - 1)
		j := k / f
		k %= f
		out = append(out, items[j])
		items = append(items[:j], items[j+1:]...)
	}
	return out
}

// genSmall builds the dig program for an enumeration index; per-target result kinds and
// per-edge encodings are drawn from r.
func genSmall(idx int, r *rand.Rand) *History {
	d := decodeSmall(idx)
	n := d.n
	tree := smallTrees[d.tree]
	h := &History{}
	h.Opts.Defer = d.deferV == 1
	h.Opts.RandSeed = int64(idx)
	h.Note = fmt.Sprintf("small#%d n=%d bits=%b tree=%v assign=%d export=%b order=%d late=%d", idx, n, d.bits, tree, d.assign, d.export, d.order, d.late)
	// per-target kind: 0 unnamed single, 1 named single, 2 group
	kind := make([]int, n)
	for j := range kind {
		switch x := r.Intn(10); {
		case x < 5:
			kind[j] = 0
		case x < 7:
			kind[j] = 1
		default:
			kind[j] = 2
		}
	}
	keyOf := func(j int) Key {
		switch kind[j] {
		case 1:
			return Key{T: j, Name: "n1"}
		case 2:
			return Key{T: j, Group: "g1"}
		}
		return Key{T: j}
	}
	scopeOf := make([]int, n)
	a := d.assign
	for i := 0; i < n; i++ {
		scopeOf[i] = a % len(tree)
		a /= len(tree)
	}
	ops := make([]Op, n)
	for i := 0; i < n; i++ {
		f := &Fn{ID: i, Results: []Res{{K: keyOf(i)}}}
		for j := 0; j < n; j++ {
			if d.bits&(1<<uint(i*n+j)) == 0 {
				continue
			}
			p := Param{K: keyOf(j)}
			if kind[j] == 2 {
				p.Soft = r.Intn(5) == 0
			} else {
				p.Optional = r.Intn(4) == 0
			}
			f.Params = append(f.Params, p)
		}
		if r.Intn(3) == 0 && len(f.Params) > 0 {
			f.PEnc = defaultEnc(len(f.Params), true)
		}
		h.Fns = append(h.Fns, f)
		ops[i] = Op{Kind: OpProvide, Scope: scopeOf[i], Fn: i, Export: d.export&(1<<uint(i)) != 0}
	}
	var seq []Op
	created := make([]bool, len(tree))
	created[0] = true
	var ensure func(s int)
	ensure = func(s int) {
		if created[s] {
			return
		}
		ensure(tree[s])
		created[s] = true
		seq = append(seq, Op{Kind: OpScope, Scope: tree[s]})
	}
	// scope creation order is index order (parents first), so history indexes equal tree indexes
	if d.late == 0 {
		for s := range tree {
			ensure(s)
		}
	}
	for _, i := range nthPerm(n, d.order) {
		for s := 1; s <= ops[i].Scope; s++ {
			ensure(s)
		}
		seq = append(seq, ops[i])
		if r.Intn(6) == 0 {
			f := &Fn{ID: len(h.Fns), Params: []Param{{K: keyOf(i)}}}
			h.Fns = append(h.Fns, f)
			seq = append(seq, Op{Kind: OpInvoke, Scope: ops[i].Scope, Fn: f.ID})
		}
	}
	for s := range tree {
		ensure(s)
	}
	// finally: every key from every scope
	for j := 0; j < n; j++ {
		f := &Fn{ID: len(h.Fns), Params: []Param{{K: keyOf(j)}}}
		h.Fns = append(h.Fns, f)
		for s := range tree {
			seq = append(seq, Op{Kind: OpInvoke, Scope: s, Fn: f.ID})
		}
	}
	h.Ops = seq
	return h
}
