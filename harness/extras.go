package main

import "strings"

func extraGen(kind string, seed int64, prop string, idx int) (*Case, bool) {
	switch kind {
	case "graphexh":
		return &Case{Kind: kind, G: &GraphCase{N: idx, Exhaustive: true}}, true
	case "graphexh5":
		return &Case{Kind: kind, G: &GraphCase{N: 5, Exhaustive: true, Part: idx, Parts: 128}}, true
	case "graphsamp":
		r := caseRand(seed, kind, idx)
		return &Case{Kind: kind, G: &GraphCase{Batch: 2000, Seed: r.Int63()}}, true
	case "small":
		return &Case{Kind: kind, H: genSmall(idx, caseRand(seed, kind, idx))}, true
	case "diff:c06", "diff:c15", "diff:c16", "diff:c16deco", "diff:c17", "diff:c15big", "diff:c16big", "diff:c17big", "diff:c16graph", "diff:c17graph", "diff:c06graph", "diff:c16defer":
		r := caseRand(seed, kind, idx)
		prof := map[string]string{"diff:c06": "rejects", "diff:c15": "enc", "diff:c16": "order", "diff:c16deco": "orderdeco", "diff:c17": "dry",
			"diff:c15big": "largeenc", "diff:c16big": "large", "diff:c17big": "large", "diff:c16graph": "largegraph", "diff:c17graph": "largegraph", "diff:c06graph": "largegraph", "diff:c16defer": "orderdefer"}[kind]
		h := genHistory(r, profileByName(prof))
		return &Case{Kind: kind, H: h, X: map[string]interface{}{"tseed": r.Int63n(1 << 40)}}, true
	case "diff:c16block":
		r := caseRand(seed, kind, idx)
		return &Case{Kind: kind, H: genDecoBlock(r), X: map[string]interface{}{"tseed": r.Int63n(1 << 40)}}, true
	case "hist:bigshape":
		return &Case{Kind: kind, H: genBigShape(caseRand(seed, kind, idx))}, true
	case "hist:decoblock":
		return &Case{Kind: kind, H: genDecoBlock(caseRand(seed, kind, idx))}, true
	case "garbage":
		r := caseRand(seed, kind, idx)
		return &Case{Kind: kind, H: genGarbageHistory(r)}, true
	case "tiny":
		return &Case{Kind: kind, H: genTiny(idx, caseRand(seed, kind, idx))}, true
	case "tinysamp":
		r := caseRand(seed, kind, idx)
		return &Case{Kind: kind, H: genTiny(r.Intn(tinyTotal(tinyMaxLen)), r)}, true
	case "tinykeys":
		return &Case{Kind: kind, H: genTinyK(idx, caseRand(seed, kind, idx))}, true
	case "tinykeyssamp":
		r := caseRand(seed, kind, idx)
		return &Case{Kind: kind, H: genTinyK(r.Intn(tinyKTotal(tinyKMaxLen)), r)}, true
	case "tinyscope":
		h := genTinyS(idx, caseRand(seed, kind, idx))
		if h == nil {
			return nil, true
		}
		return &Case{Kind: kind, H: h}, true
	case "tinyscopesamp":
		r := caseRand(seed, kind, idx)
		h := genTinyS(r.Intn(tinySTotal(tinySMaxLen)), r)
		if h == nil {
			return nil, true
		}
		return &Case{Kind: kind, H: h}, true
	case "difftinyscope:c16":
		r := caseRand(seed, kind, idx)
		h := genTinyS(idx, r)
		if h == nil {
			return nil, true
		}
		return &Case{Kind: kind, H: h, X: map[string]interface{}{"tseed": r.Int63n(1 << 40)}}, true
	case "tinyfault":
		h := genTinyFault(idx, caseRand(seed, kind, idx))
		if h == nil {
			return nil, true
		}
		return &Case{Kind: kind, H: h}, true
	case "tinyfaultsamp":
		r := caseRand(seed, kind, idx)
		h := genTinyFault(r.Intn(tinyFaultTotal()), r)
		if h == nil {
			return nil, true
		}
		return &Case{Kind: kind, H: h}, true
	case "difftiny:c06", "difftiny:c16", "difftiny:c17":
		r := caseRand(seed, kind, idx)
		return &Case{Kind: kind, H: genTiny(idx, r), X: map[string]interface{}{"tseed": r.Int63n(1 << 40)}}, true
	case "difftinysamp:c06", "difftinysamp:c16", "difftinysamp:c17":
		r := caseRand(seed, kind, idx)
		return &Case{Kind: kind, H: genTiny(r.Intn(tinyTotal(tinyMaxLen)), r), X: map[string]interface{}{"tseed": r.Int63n(1 << 40)}}, true
	case "smallsamp":
		r := caseRand(seed, kind, idx)
		j := r.Intn(smallTotal())
		return &Case{Kind: kind, H: genSmall(j, r)}, true
	}
	return nil, false
}

func extraCheck(prop string, c *Case, trace bool) (*CaseResult, bool) {
	switch {
	case c.G != nil:
		return checkGraphCase(c.G), true
	case c.Kind == "garbage":
		return checkGarbage(c, trace), true
	case strings.HasPrefix(c.Kind, "difftiny") && strings.HasSuffix(c.Kind, ":c06"):
		return checkC06(c, trace), true
	case strings.HasPrefix(c.Kind, "difftiny") && strings.HasSuffix(c.Kind, ":c16"):
		return checkC16(c, trace), true
	case strings.HasPrefix(c.Kind, "difftiny") && strings.HasSuffix(c.Kind, ":c17"):
		return checkC17(c, trace), true
	case c.Kind == "diff:c06" || c.Kind == "diff:c06graph":
		return checkC06(c, trace), true
	case c.Kind == "diff:c15" || c.Kind == "diff:c15big":
		return checkC15(c, trace), true
	case c.Kind == "diff:c16" || c.Kind == "diff:c16deco" || c.Kind == "diff:c16block" || c.Kind == "diff:c16big" || c.Kind == "diff:c16graph" || c.Kind == "diff:c16defer":
		return checkC16(c, trace), true
	case c.Kind == "diff:c17" || c.Kind == "diff:c17big" || c.Kind == "diff:c17graph":
		return checkC17(c, trace), true
	}
	return nil, false
}

func extraJobs(prop, tier string) []JobSpec {
	q := tier == "quick"
	n := func(quick, thorough int) int {
		if q {
			return quick
		}
		return thorough
	}
	switch prop {
	case "C06":
		return []JobSpec{{"diff:c06", n(40000, 2000000)}, {"hist:rejects", n(15000, 700000)}}
	case "C14":
		return []JobSpec{{"garbage", n(60000, 3000000)}, {"hist:rejects", n(20000, 1000000)}, {"hist:vizerr", n(15000, 700000)}}
	case "C15":
		return []JobSpec{{"diff:c15", n(40000, 2000000)}}
	case "C16":
		// diff:c16deco: group-heavy blocks with decorators at several levels of deeper trees and exported consumers
		return []JobSpec{{"diff:c16", n(40000, 2000000)}, {"diff:c16deco", n(15000, 700000)}, {"diff:c16block", n(15000, 700000)}, {"diff:c16defer", n(25000, 1000000)}}
	case "C17":
		return []JobSpec{{"diff:c17", n(40000, 2000000)}}
	case "C05":
		// hist:faults: a failure (in particular an unrecovered panic) must not leave anything behind that makes
		// a later Invoke of an acyclic graph report a cycle
		jobs := []JobSpec{{"graphexh", 5}, {"graphexh5", 128}, {"graphsamp", n(100, 2000)}, {"hist:cyclic", n(40000, 2000000)}, {"hist:faults", n(10000, 500000)}, {"pool:pcyclic", n(15000, 700000)}, {"hist:reentrant", n(15000, 700000)}, {"hist:bigshape", n(48, 1600)}}
		if q {
			jobs = append(jobs, JobSpec{"smallsamp", 60000})
		} else {
			jobs = append(jobs, JobSpec{"small", smallTotal()})
		}
		return jobs
	}
	return nil
}
