// Package vt holds the value universe of the dig verification harness: provenance tokens,
// carrier types and interfaces. It is a package of its own so that the generated pool of
// declared functions can mention the same types.
package vt

import (
	"fmt"
	"reflect"
)

// Tok is the provenance token carried by every value a harness-owned user
// function returns. Pointer identity of the Tok is instance identity.
type Tok struct {
	Fn, Exec, Slot, Elem int
	Tainted              bool // minted by an execution that failed
}

func (t *Tok) String() string {
	if t == nil {
		return "zero"
	}
	s := fmt.Sprintf("f%d#%d.%d.%d", t.Fn, t.Exec, t.Slot, t.Elem)
	if t.Tainted {
		s += "!"
	}
	return s
}

// Carrier types. Method sets decide which interfaces they implement.
type V0 struct{ P *Tok }
type V1 struct{ P *Tok }
type V2 struct{ P *Tok }
type V3 struct{ P *Tok }

// V4 and V7 have no methods and, thanks to the second (zero-size) field, are not pointer-shaped: they are the
// carriers that reflect.StructOf can embed as anonymous fields next to other fields.
type V4 struct {
	P *Tok
	_ struct{}
}
type V5 struct{ P *Tok }
type V6 struct{ P *Tok }
type V7 struct {
	P *Tok
	_ struct{}
}

func (V0) M0() {}
func (V1) M0() {}
func (V1) M1() {}
func (V2) M1() {}
func (V2) M2() {}
func (V3) M0() {}
func (V3) M1() {}
func (V3) M2() {}
func (V5) M2() {}
func (V6) M0() {}
func (V6) M2() {}

type I0 interface{ M0() }
type I1 interface{ M1() }
type I2 interface{ M2() }
type I3 interface {
	M0()
	M1()
}

// Named slice types (two families) for value-group parameters and results: a group may be declared
// under any slice type whose element type is the group's.
type SV0 []V0
type SV1 []V1
type SV2 []V2
type SV3 []V3
type SV4 []V4
type SV5 []V5
type SV6 []V6
type SV7 []V7
type TV0 []V0
type TV1 []V1
type TV2 []V2
type TV3 []V3
type TV4 []V4
type TV5 []V5
type TV6 []V6
type TV7 []V7

// VB is a plain struct whose fields are themselves carriers (the token sits in A.P). If dig ever took it
// for a parameter object its fields would be filled from the keys V4 and V7 instead of the value its own
// constructor returned.
type VB struct {
	A V4
	B V7
}

// TErr is a concrete error type for functions that declare their error result as *TErr instead of error.
// A nil *TErr stored in an error is a non-nil error (Go's typed-nil rule); Error is safe on it.
type TErr struct{ Msg string }

func (e *TErr) Error() string {
	if e == nil {
		return "<nil *vt.TErr>"
	}
	return e.Msg
}

// Loc0..Loc3: functions whose code pointers are handed to dig.LocationForPC (Fn.LocPC): dig then reports the
// constructor under this location (errors, callbacks, pictures) while its ID stays the constructor's own.
func Loc0()     {}
func Locm()     {}
func Locff()    {}
func Loc3m_fm() {}

var LocFuncs = []func(){Loc0, Locm, Locff, Loc3m_fm}

// LocNames: the names of LocFuncs (some end in letters of "-fm", the compiler's suffix of method values).
var LocNames = []string{"Loc0", "Locm", "Locff", "Loc3m_fm"}

// VS is a universe type of SLICE kind (a value carries its token in its first element); a nil VS is a legitimate
// value - for instance a member of a value group - that carries none.
type VS []V0

// TwinA and TwinB return two DISTINCT interface types that print identically ("vt.Twin"): types declared in
// different function bodies, as types of the same name in packages of the same name are.
func TwinA() reflect.Type {
	type Twin interface{ M0() }
	return reflect.TypeOf((*Twin)(nil)).Elem()
}

func TwinB() reflect.Type {
	type Twin interface{ M0() }
	return reflect.TypeOf((*Twin)(nil)).Elem()
}

// Universe types of further Go kinds; each value carries its token.
type VM map[string]*Tok // map kind (uncomparable): the token is m["t"]
type VF func() *Tok     // func kind (uncomparable): the token is what the function returns
type VA [1]*Tok         // array kind

// VE is a plain struct that itself embeds two structs (the token is in the first one): embedded ahead of a
// struct that carries dig.In it makes the search for the embedded dig.In visit a level with several entries.
type VEa struct {
	T *Tok
	_ struct{}
}
type VEb struct{ X int }
type VE struct {
	VEa
	VEb
}
