package main

import (
	"bufio"
	"context"
	"encoding/json"
	"flag"
	"fmt"
	"hash/fnv"
	"os"
	"os/exec"
	"path/filepath"
	"runtime/debug"
	"sort"
	"strings"
	"sync"
	"time"
)

// Case is one self-contained unit of exploration.
type Case struct {
	Kind string                 `json:"kind"`
	H    *History               `json:"history,omitempty"`
	G    *GraphCase             `json:"graph,omitempty"`
	X    map[string]interface{} `json:"x,omitempty"`
}

// CaseResult is what checking one case observed.
type CaseResult struct {
	Viol     []Violation
	Stats    map[string]int
	Situ     map[string]int
	Shape    uint64
	Relevant bool
	Log      []string
}

// JobSpec: n cases of one kind.
type JobSpec struct {
	Kind string
	N    int
}

type chunk struct {
	job    JobSpec
	lo, hi int
}

// ViolRec is a violation as reported by a worker.
type ViolRec struct {
	Violation
	Kind  string   `json:"kind"`
	Idx   int      `json:"idx"`
	Case  *Case    `json:"case"`
	Log   []string `json:"log,omitempty"`
	Class string   `json:"class"`
}

type Summary struct {
	Evaluations int            `json:"evaluations"`
	Relevant    int            `json:"relevant"`
	Stats       map[string]int `json:"stats"`
	Situ        map[string]int `json:"situ"`
	Shapes      []uint64       `json:"shapes"`
	Viols       []ViolRec      `json:"viols"`
	RuleCounts  map[string]int `json:"rule_counts"`
	Samples     []*Case        `json:"samples"`
}

func hashStrings(ss []string) uint64 {
	h := fnv.New64a()
	for _, s := range ss {
		h.Write([]byte(s))
		h.Write([]byte{0})
	}
	return h.Sum64()
}

func forProp(v Violation, prop string) bool {
	for _, p := range v.Props {
		if p == prop {
			return true
		}
	}
	return false
}

// cmdWorker runs cases [lo,hi) of one job kind, writing progress to -out.
func cmdWorker(args []string) {
	fs := flag.NewFlagSet("worker", flag.ExitOnError)
	prop := fs.String("prop", "", "property")
	kind := fs.String("kind", "", "job kind")
	seed := fs.Int64("seed", 1, "seed")
	lo := fs.Int("lo", 0, "first case")
	hi := fs.Int("hi", 0, "end case")
	out := fs.String("out", "", "progress/result file")
	fs.Parse(args)
	debug.SetMaxStack(64 << 20)
	f, err := os.Create(*out)
	if err != nil {
		fmt.Fprintln(os.Stderr, err)
		os.Exit(2)
	}
	bw := bufio.NewWriter(f)
	sum := &Summary{Stats: map[string]int{}, Situ: map[string]int{}, RuleCounts: map[string]int{}}
	shapes := map[uint64]bool{}
	seenRule := map[string]bool{}
	// a violation is written out the moment its rule fires: if the process then dies (e.g. an unbounded
	// re-entry that overflows the stack right after C02.nested fired) the parent still learns of it
	violationSink = func(v Violation) {
		b, _ := json.Marshal(v)
		fmt.Fprintf(bw, "VIOLNOW %s\n", b)
		bw.Flush()
	}
	for i := *lo; i < *hi; i++ {
		fmt.Fprintf(bw, "BEGIN %d\n", i)
		bw.Flush()
		c := genCase(*kind, *seed, *prop, i)
		if c == nil {
			sum.Stats["cases.empty-slot"]++
			fmt.Fprintf(bw, "END %d\n", i)
			continue
		}
		res := checkCase(*prop, c, false)
		sum.Evaluations++
		for k, v := range res.Stats {
			sum.Stats[k] += v
		}
		for k, v := range res.Situ {
			sum.Situ[k] += v
		}
		if res.Relevant {
			sum.Relevant++
			shapes[res.Shape] = true
			if len(sum.Samples) < 2 && i%97 == 3 {
				sum.Samples = append(sum.Samples, c)
			}
		}
		for _, v := range res.Viol {
			sum.RuleCounts[v.Rule]++
			if seenRule[v.Rule] {
				continue
			}
			seenRule[v.Rule] = true
			vr := ViolRec{Violation: v, Kind: *kind, Idx: i, Case: c}
			if forProp(v, *prop) {
				sc := shrinkCase(*prop, c, v.Rule)
				vr.Case = sc
				r2 := checkCase(*prop, sc, true)
				vr.Log = r2.Log
				for _, v2 := range r2.Viol {
					if v2.Rule == v.Rule {
						vr.Violation = v2
					}
				}
			}
			vr.Class = witnessClass(vr.Case, vr.Rule)
			if vr.Violation.Class != "" {
				vr.Class = vr.Violation.Class
			}
			sum.Viols = append(sum.Viols, vr)
		}
		fmt.Fprintf(bw, "END %d\n", i)
	}
	for s := range shapes {
		sum.Shapes = append(sum.Shapes, s)
	}
	b, _ := json.Marshal(sum)
	fmt.Fprintf(bw, "SUMMARY %s\n", b)
	bw.Flush()
	f.Close()
}

// parseProgress reads a worker file: last BEGIN without END, and the summary if present.
func parseProgress(path string) (dangling int, lastEnd int, sum *Summary, pending []Violation) {
	dangling, lastEnd = -1, -1
	f, err := os.Open(path)
	if err != nil {
		return
	}
	defer f.Close()
	sc := bufio.NewScanner(f)
	sc.Buffer(make([]byte, 1<<20), 1<<30)
	for sc.Scan() {
		l := sc.Text()
		switch {
		case strings.HasPrefix(l, "BEGIN "):
			fmt.Sscanf(l, "BEGIN %d", &dangling)
			pending = nil
		case strings.HasPrefix(l, "VIOLNOW "):
			var v Violation
			if json.Unmarshal([]byte(l[len("VIOLNOW "):]), &v) == nil {
				pending = append(pending, v)
			}
		case strings.HasPrefix(l, "END "):
			fmt.Sscanf(l, "END %d", &lastEnd)
			dangling = -1
			pending = nil
		case strings.HasPrefix(l, "SUMMARY "):
			s := &Summary{}
			if json.Unmarshal([]byte(l[len("SUMMARY "):]), s) == nil {
				sum = s
			}
		}
	}
	return
}

type knownFinding struct {
	Prop, Rule, Class, Text string
}

func loadKnown(path string) []knownFinding {
	b, err := os.ReadFile(path)
	if err != nil {
		return nil
	}
	var out []knownFinding
	for _, l := range strings.Split(string(b), "\n") {
		l = strings.TrimSpace(l)
		if !strings.HasPrefix(l, "known:") {
			continue
		}
		kf := knownFinding{Text: strings.TrimSpace(l[len("known:"):])}
		for _, w := range strings.Fields(l) {
			switch {
			case strings.HasPrefix(w, "property="):
				kf.Prop = w[len("property="):]
			case strings.HasPrefix(w, "rule="):
				kf.Rule = w[len("rule="):]
			case strings.HasPrefix(w, "class="):
				kf.Class = w[len("class="):]
			}
		}
		out = append(out, kf)
	}
	return out
}

// cmdCheck is the parent: partitions, runs workers, merges, writes evidence.
func cmdCheck(args []string) {
	fs := flag.NewFlagSet("check", flag.ExitOnError)
	prop := fs.String("prop", "", "property id")
	tier := fs.String("tier", "quick", "quick|thorough")
	seed := fs.Int64("seed", 1, "seed")
	root := fs.String("root", "/verif", "verif root (KNOWN_FINDINGS.txt)")
	outRoot := fs.String("out", "", "output root for evidence, replays and work files (default: root)")
	workers := fs.Int("workers", 16, "parallel workers")
	scale := fs.Float64("scale", 1, "multiply case counts (development)")
	jobsOverride := fs.String("jobs", os.Getenv("VERIF_JOBS"), "development: kind:n[,kind:n...] instead of the registered jobs")
	fs.Parse(args)
	if *outRoot == "" {
		*outRoot = *root
	}
	start := time.Now()
	jobs := allJobsFor(*prop, *tier)
	if *jobsOverride != "" {
		jobs = nil
		for _, part := range strings.Split(*jobsOverride, ",") {
			i := strings.LastIndex(part, "=")
			if i < 0 {
				continue
			}
			var n int
			fmt.Sscanf(part[i+1:], "%d", &n)
			jobs = append(jobs, JobSpec{part[:i], n})
		}
	}
	if len(jobs) == 0 {
		fmt.Printf("INCONCLUSIVE property=%s reason=no-jobs-defined\n", *prop)
		os.Exit(3)
	}
	// (per process: two runs of the same check at the same time must not wipe each other's files)
	work := filepath.Join(*outRoot, ".work", fmt.Sprintf("%s-%s-%d", *prop, *tier, os.Getpid()))
	os.RemoveAll(work)
	os.MkdirAll(work, 0o755)
	defer os.RemoveAll(work)
	var chunks []chunk
	for _, j := range jobs {
		n := int(float64(j.N) * *scale)
		if n < 1 {
			n = 1
		}
		size := chunkSize(j.Kind)
		for lo := 0; lo < n; lo += size {
			hi := lo + size
			if hi > n {
				hi = n
			}
			chunks = append(chunks, chunk{job: j, lo: lo, hi: hi})
		}
	}
	exe, _ := os.Executable()
	total := &Summary{Stats: map[string]int{}, Situ: map[string]int{}, RuleCounts: map[string]int{}}
	shapes := map[uint64]bool{}
	var mu sync.Mutex
	var inconclusive []string
	var crashes []ViolRec
	const maxDeaths = 40
	deaths, skippedAfterDeaths := 0, 0
	ch := make(chan chunk)
	var wg sync.WaitGroup
	var fileSeq int
	for wk := 0; wk < *workers; wk++ {
		wg.Add(1)
		go func() {
			defer wg.Done()
			for c := range ch {
				lo := c.lo
				for lo < c.hi {
					mu.Lock()
					if deaths >= maxDeaths {
						// the verdict is settled (every death is a violation); a tree that kills the worker in
						// case after case would otherwise take hours (each death costs a process start and,
						// for a stack overflow, a gigabyte of stack)
						skippedAfterDeaths += c.hi - lo
						mu.Unlock()
						break
					}
					fileSeq++
					out := filepath.Join(work, fmt.Sprintf("w%06d.txt", fileSeq))
					mu.Unlock()
					ctx, cancel := context.WithTimeout(context.Background(), 20*time.Minute)
					cmd := exec.CommandContext(ctx, exe, "worker", "-prop", *prop, "-kind", c.job.Kind,
						"-seed", fmt.Sprint(*seed), "-lo", fmt.Sprint(lo), "-hi", fmt.Sprint(c.hi), "-out", out)
					errFile, _ := os.Create(out + ".stderr")
					cmd.Stderr = errFile
					cmd.Stdout = errFile
					runErr := cmd.Run()
					errFile.Close()
					timedOut := ctx.Err() != nil
					cancel()
					dangling, lastEnd, sum, pending := parseProgress(out)
					mu.Lock()
					if sum != nil {
						mergeSummary(total, sum, shapes)
					}
					if sum == nil {
						switch {
						case timedOut:
							inconclusive = append(inconclusive, fmt.Sprintf("watchdog fired in %s cases %d..%d", c.job.Kind, lo, c.hi))
							lo = c.hi
						case dangling >= 0:
							tail := tailOf(out+".stderr", 12)
							cs := genCase(c.job.Kind, *seed, *prop, dangling)
							crashes = append(crashes, ViolRec{Violation: Violation{Props: []string{"C05", "C14"}, Rule: "process-died",
								Msg: "worker process died while executing this case: " + tail}, Kind: c.job.Kind, Idx: dangling, Case: cs,
								Class: witnessClass(cs, "process-died")})
							// rules that had fired in this case before the process died
							for _, pv := range pending {
								pv.Msg += " (the worker process died later in this case: " + tail + ")"
								crashes = append(crashes, ViolRec{Violation: pv, Kind: c.job.Kind, Idx: dangling, Case: cs, Class: witnessClass(cs, pv.Rule)})
								total.RuleCounts[pv.Rule]++
							}
							// cases before the crash are lost from the summary: rerun them is not needed for the verdict;
							// continue after the crashing case
							total.Evaluations += dangling - lo + 1
							lo = dangling + 1
							deaths++
						default:
							inconclusive = append(inconclusive, fmt.Sprintf("worker for %s cases %d..%d ended without a summary (lastEnd=%d, err=%v): %s", c.job.Kind, lo, c.hi, lastEnd, runErr, tailOf(out+".stderr", 5)))
							lo = c.hi
						}
					} else {
						lo = c.hi
					}
					mu.Unlock()
					os.Remove(out)
					os.Remove(out + ".stderr")
				}
			}
		}()
	}
	for _, c := range chunks {
		ch <- c
	}
	close(ch)
	wg.Wait()
	total.Viols = append(total.Viols, crashes...)
	if skippedAfterDeaths > 0 {
		fmt.Printf("NOTE exploration cut short after %d worker process deaths: %d cases not run (the verdict is VIOLATION already)\n", deaths, skippedAfterDeaths)
	}
	finish(*prop, *tier, *seed, *root, *outRoot, jobs, total, shapes, inconclusive, time.Since(start))
}

func tailOf(path string, n int) string {
	b, err := os.ReadFile(path)
	if err != nil {
		return ""
	}
	lines := strings.Split(string(b), "\n")
	var keep []string
	for _, l := range lines {
		if strings.HasPrefix(l, "fatal error") || strings.HasPrefix(l, "panic:") || strings.HasPrefix(l, "runtime: goroutine stack") {
			keep = append(keep, l)
		}
	}
	if len(keep) == 0 {
		if len(lines) > n {
			lines = lines[:n]
		}
		keep = lines
	}
	return strings.Join(keep, " | ")
}

func mergeSummary(total, s *Summary, shapes map[uint64]bool) {
	total.Evaluations += s.Evaluations
	total.Relevant += s.Relevant
	for k, v := range s.Stats {
		total.Stats[k] += v
	}
	for k, v := range s.Situ {
		total.Situ[k] += v
	}
	for k, v := range s.RuleCounts {
		total.RuleCounts[k] += v
	}
	for _, x := range s.Shapes {
		shapes[x] = true
	}
	total.Viols = append(total.Viols, s.Viols...)
	if len(total.Samples) < 4 {
		total.Samples = append(total.Samples, s.Samples...)
	}
}

type replayFile struct {
	Property string   `json:"property"`
	Rule     string   `json:"rule"`
	Class    string   `json:"class"`
	Props    []string `json:"props"`
	Msg      string   `json:"msg"`
	Seed     int64    `json:"seed"`
	Kind     string   `json:"kind"`
	Idx      int      `json:"idx"`
	Case     *Case    `json:"case"`
	Describe []string `json:"describe,omitempty"`
	Log      []string `json:"log,omitempty"`
}

func finish(prop, tier string, seed int64, root, outRoot string, jobs []JobSpec, total *Summary, shapes map[uint64]bool, inconclusive []string, wall time.Duration) {
	known := loadKnown(filepath.Join(root, "KNOWN_FINDINGS.txt"))
	replayDir := filepath.Join(outRoot, "replays", prop)
	var mine, others []ViolRec
	for _, v := range total.Viols {
		if forProp(v.Violation, prop) {
			mine = append(mine, v)
		} else {
			others = append(others, v)
		}
	}
	sort.Slice(mine, func(i, j int) bool {
		if mine[i].Rule != mine[j].Rule {
			return mine[i].Rule < mine[j].Rule
		}
		return mine[i].Idx < mine[j].Idx
	})
	exit := 0
	reported := map[string]bool{}
	nviol := 0
	for _, v := range mine {
		key := v.Rule + "|" + v.Class
		if reported[key] {
			continue
		}
		reported[key] = true
		isKnown := false
		for _, k := range known {
			if k.Prop == prop && k.Rule == v.Rule && k.Class == v.Class {
				fmt.Printf("KNOWN-FINDING: %s\n", k.Text)
				isKnown = true
			}
		}
		if isKnown {
			continue
		}
		nviol++
		os.MkdirAll(replayDir, 0o755)
		rf := replayFile{Property: prop, Rule: v.Rule, Class: v.Class, Props: v.Props, Msg: v.Msg, Seed: seed, Kind: v.Kind, Idx: v.Idx, Case: v.Case, Log: v.Log}
		if v.Case != nil && v.Case.H != nil {
			rf.Describe = v.Case.H.Describe()
		}
		b, _ := json.MarshalIndent(rf, "", " ")
		path := filepath.Join(replayDir, fmt.Sprintf("%s-%s-%016x.json", v.Rule, tier, hashStrings([]string{string(b)})))
		os.WriteFile(path, b, 0o644)
		fmt.Printf("VIOLATION property=%s replay=%s\n", prop, path)
		fmt.Printf("  rule=%s class=%s case=%s#%d: %s\n", v.Rule, v.Class, v.Kind, v.Idx, v.Msg)
		exit = 1
	}
	// Every listed known finding gets its line on a tree that still has the defect, whether or not this run's
	// exploration happened to meet it: its recorded witness (findings/*.json named in KNOWN_FINDINGS.txt) is
	// re-executed. A witness that no longer fails is reported as a NOTE (the defect is gone; the entry is stale).
	for _, k := range known {
		if k.Prop != prop || reported[k.Rule+"|"+k.Class] {
			continue
		}
		for _, w := range strings.Fields(k.Text) {
			if !strings.HasPrefix(w, "findings/") || !strings.HasSuffix(w, ".json") {
				continue
			}
			b, err := os.ReadFile(filepath.Join(root, w))
			if err != nil {
				fmt.Printf("NOTE known finding %s %s: witness %s unreadable: %v\n", k.Rule, k.Class, w, err)
				continue
			}
			var rf replayFile
			if json.Unmarshal(b, &rf) != nil || rf.Case == nil {
				fmt.Printf("NOTE known finding %s %s: witness %s is no replay file\n", k.Rule, k.Class, w)
				continue
			}
			fired := false
			for _, v := range checkCase(prop, rf.Case, false).Viol {
				cl := v.Class
				if cl == "" {
					cl = witnessClass(rf.Case, v.Rule)
				}
				if v.Rule == k.Rule && cl == k.Class {
					fired = true
				}
			}
			if fired {
				reported[k.Rule+"|"+k.Class] = true
				fmt.Printf("KNOWN-FINDING: %s\n", k.Text)
			} else {
				fmt.Printf("NOTE known finding %s %s: its recorded witness %s no longer fails\n", k.Rule, k.Class, w)
			}
		}
	}
	seenOther := map[string]bool{}
	for _, v := range others {
		if !seenOther[v.Rule] {
			seenOther[v.Rule] = true
			fmt.Printf("NOTE other-property=%s rule=%s (%d histories) case=%s#%d: %s\n", strings.Join(v.Props, ","), v.Rule, total.RuleCounts[v.Rule], v.Kind, v.Idx, v.Msg)
		}
	}
	floorMsg := checkFloor(prop, tier, total)
	writeEvidence(prop, tier, seed, outRoot, jobs, total, len(shapes), wall, nviol, inconclusive, floorMsg)
	fmt.Printf("property=%s tier=%s seed=%d evaluations=%d relevant=%d distinct_shapes=%d wall=%.1fs\n", prop, tier, seed, total.Evaluations, total.Relevant, len(shapes), wall.Seconds())
	if exit == 0 {
		if len(inconclusive) > 0 {
			fmt.Printf("INCONCLUSIVE property=%s reason=%s\n", prop, strings.Join(inconclusive, "; "))
			exit = 3
		} else if floorMsg != "" {
			fmt.Printf("INCONCLUSIVE property=%s reason=evidence-floor: %s\n", prop, floorMsg)
			exit = 3
		}
	}
	os.Exit(exit)
}

// cmdReplay re-executes a replay file and exits 1 if the rule fires again.
func cmdReplay(args []string) {
	if len(args) < 1 {
		fmt.Fprintln(os.Stderr, "usage: replay <file>")
		os.Exit(2)
	}
	b, err := os.ReadFile(args[0])
	if err != nil {
		fmt.Fprintln(os.Stderr, err)
		os.Exit(2)
	}
	var rf replayFile
	if err := json.Unmarshal(b, &rf); err != nil {
		fmt.Fprintln(os.Stderr, err)
		os.Exit(2)
	}
	debug.SetMaxStack(64 << 20)
	if rf.Case != nil && rf.Case.H != nil {
		for _, l := range rf.Case.H.Describe() {
			fmt.Println(l)
		}
	}
	fmt.Println("--- replaying (a process death here reproduces rule process-died)")
	res := checkCase(rf.Property, rf.Case, true)
	for _, l := range res.Log {
		fmt.Println(l)
	}
	fired := false
	for _, v := range res.Viol {
		if v.Class != "" {
			fmt.Printf("violation %v %s class=%s: %s\n", v.Props, v.Rule, v.Class, v.Msg)
		} else {
			fmt.Printf("violation %v %s: %s\n", v.Props, v.Rule, v.Msg)
		}
		if v.Rule == rf.Rule {
			fired = true
		}
	}
	if fired {
		fmt.Printf("VIOLATION property=%s replay=%s\n", rf.Property, args[0])
		os.Exit(1)
	}
	fmt.Println("rule", rf.Rule, "did not fire")
}
