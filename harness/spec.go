package main

import (
	"fmt"
	"strings"
)

// Key identifies a provided value: (type, name) or, when Group != "", the
// value group (element type, group).
type Key struct {
	T     int    `json:"t"`
	Name  string `json:"n,omitempty"`
	Group string `json:"g,omitempty"`
}

func (k Key) String() string {
	if k.Group != "" {
		return fmt.Sprintf("%s[group=%s]", typeName[k.T], k.Group)
	}
	if k.Name != "" {
		return fmt.Sprintf("%s[name=%s]", typeName[k.T], k.Name)
	}
	return typeName[k.T]
}

// Param is one logical dependency of a function. For a group parameter K.T is
// the element type and the Go type is []T.
type Param struct {
	K        Key  `json:"k"`
	Optional bool `json:"opt,omitempty"`
	Soft     bool `json:"soft,omitempty"`
	// Slice: group parameters only; 1 or 2: the Go type is a named slice type (vt.SVt / vt.TVt) instead of []T.
	Slice int `json:"sl,omitempty"`
}

func (p Param) String() string {
	s := p.K.String()
	if p.Optional {
		s += "?"
	}
	if p.Soft {
		s += "~"
	}
	if p.Slice > 0 {
		s += fmt.Sprintf("(named slice %d)", p.Slice)
	}
	return s
}

// Res is one logical result of a function. K.T is the concrete Go type (element
// type for Flatten and Whole, whose Go type is []T).
type Res struct {
	K       Key  `json:"k"`
	Flatten bool `json:"flat,omitempty"`  // group result flattened from a slice of N elements
	Whole   bool `json:"whole,omitempty"` // decorator result: the whole group as a slice of N
	N       int  `json:"n,omitempty"`
	// Slice: Flatten/Whole results only; 1 or 2: the Go type is a named slice type instead of []T.
	Slice int `json:"sl,omitempty"`
	// Nil: a plain (not flattened) group result of type VS whose value is the nil slice: a member like any
	// other, which carries no token (the group then holds one more zero element).
	Nil bool `json:"nil,omitempty"`
	// Twin: a plain group result of pointer type that returns the very same pointer as the result before it (same
	// key): the group still gets two members.
	Twin bool `json:"twin,omitempty"`
}

func (r Res) String() string {
	s := r.K.String()
	if r.Flatten {
		s += fmt.Sprintf("*flat%d", r.N)
	}
	if r.Whole {
		s += fmt.Sprintf("*whole%d", r.N)
	}
	if r.Slice > 0 {
		s += fmt.Sprintf("(named slice %d)", r.Slice)
	}
	if r.Nil {
		s += "(nil)"
	}
	if r.Twin {
		s += "(same pointer)"
	}
	return s
}

// Enc describes how logical params/results are laid out in the Go signature:
// a leaf (index into Params/Results) or an object (dig.In / dig.Out struct)
// holding further items. Leaves appear in depth-first order 0..n-1.
type Enc struct {
	Leaf  int   `json:"l"`
	Obj   []Enc `json:"o,omitempty"`
	IsObj bool  `json:"io,omitempty"`
	// Lay: struct layout of an object. 0: embedded In/Out first. 1: embedded last. 4: embedded after the
	// first field. Parameter objects only: 2: embedded first, tagged ignore-unexported:"true", an
	// unexported field last; 3: an unexported field first, then the tagged embed. Composition by embedding
	// (objects that hold at least one nested object): 5: the nested objects are embedded anonymously and the
	// object has no dig.In/dig.Out of its own; 6: embedded In/Out first, nested objects embedded anonymously.
	// 7: as 4, and the first field, when it is a dependency of a method-less struct type, is itself embedded.
	// 8 (parameter objects): as 5, and a first field that is a dependency of a method-less struct type is
	// embedded too, AHEAD of the embedded nested objects: struct{ V0; Inner } with Inner struct{ dig.In; ... }.
	Lay int `json:"lay,omitempty"`
	// Junk (parameter objects, on an object NESTED in another object and held by a named field): tags on the
	// field that holds it, which dig ignores for nested parameter objects. 1: optional:"true", 2: name:"zz",
	// 3: both. They must change nothing (the inner fields keep their own optional/name).
	Junk int `json:"jt,omitempty"`
}

// Fn is the spec of one harness-owned user function.
type Fn struct {
	ID      int     `json:"id"`
	Params  []Param `json:"p,omitempty"`
	Results []Res   `json:"r,omitempty"`
	PEnc    []Enc   `json:"pe,omitempty"` // nil: derived (object iff tags are needed)
	REnc    []Enc   `json:"re,omitempty"`
	HasErr  bool    `json:"e,omitempty"` // error result (trailing unless ErrPos says otherwise)
	// ErrPos (constructors and decorators with HasErr, dynamic functions only): 0: the error is the last
	// result; 1: it is the FIRST result; 2: an error result first (it carries the fault) and another one last.
	ErrPos int `json:"ep,omitempty"`
	// ErrType 1 (dynamic functions, differential C17 runs only): the error results are declared with the
	// concrete type *vt.TErr instead of error. The function returns a nil *vt.TErr, which by Go's rules is a
	// non-nil error once dig stores it in an error: the function counts as failed, in a normal container and
	// (through the zero value the dry-run invoker fabricates) in a DryRun container alike.
	ErrType  int  `json:"et,omitempty"`
	Variadic bool `json:"va,omitempty"` // extra trailing variadic parameter (...V7)
	// LocPC > 0 (constructors): provided with dig.LocationForPC(pc of vt.Loc<LocPC-1>). The location is what dig
	// reports as the function's name (callback Name, cluster label, error texts); the ID stays the function's own.
	LocPC int `json:"lpc,omitempty"`
	// Faults: execution number (1-based) -> "err" | "panic". Key 0 means every execution.
	Faults map[int]string `json:"f,omitempty"`
	Pool   int            `json:"pool,omitempty"` // 1+index into the declared pool; 0 = dynamic
	// Reenter > 0: while this function executes it calls Invoke (from the scope it was registered in)
	// with function Fns[Reenter-1]: re-entrant use of the container from inside user code.
	Reenter int `json:"reenter,omitempty"`
	// ReenterProvide: with Reenter > 0, the nested call is Provide(Fns[Reenter-1]) to the scope this function
	// was registered in (registration from inside user code) instead of Invoke.
	ReenterProvide bool `json:"reprov,omitempty"`
}

func (f *Fn) faultAt(exec int) string {
	if f.Faults == nil {
		return ""
	}
	if k, ok := f.Faults[exec]; ok {
		return k
	}
	return f.Faults[0]
}

func (f *Fn) Sig() string {
	var ps, rs []string
	for _, p := range f.Params {
		ps = append(ps, p.String())
	}
	for _, r := range f.Results {
		rs = append(rs, r.String())
	}
	s := fmt.Sprintf("f%d(%s)->(%s)", f.ID, strings.Join(ps, ","), strings.Join(rs, ","))
	if f.HasErr {
		s += "+err"
		if f.ErrPos > 0 {
			s += fmt.Sprintf("(pos%d)", f.ErrPos)
		}
	}
	if f.Variadic {
		s += "+variadic"
	}
	if len(f.Faults) > 0 {
		s += fmt.Sprintf(" faults=%v", f.Faults)
	}
	if f.Reenter > 0 {
		if f.ReenterProvide {
			s += fmt.Sprintf(" reenters:Provide(f%d)", f.Reenter-1)
		} else {
			s += fmt.Sprintf(" reenters:Invoke(f%d)", f.Reenter-1)
		}
	}
	return s
}

const (
	OpScope     = "scope"
	OpProvide   = "provide"
	OpDecorate  = "decorate"
	OpInvoke    = "invoke"
	OpVisualize = "visualize"
	OpString    = "string"
)

// Op is one API call of a history.
type Op struct {
	Kind   string `json:"k"`
	Scope  int    `json:"s"`            // target scope (parent for OpScope); 0 is the root container
	Fn     int    `json:"fn,omitempty"` // index into History.Fns
	Export bool   `json:"x,omitempty"`
	// NameOpt/GroupOpt: name/group given through dig.Name/dig.Group instead of result tags.
	NameOpt  string `json:"no,omitempty"`
	GroupOpt string `json:"go,omitempty"`
	As       []int  `json:"as,omitempty"` // interface type indexes for dig.As
	Callback bool   `json:"cb,omitempty"`
	// CbPanic: the callback panics (with a *InjCbPanic) the first time it fires.
	CbPanic bool `json:"cbp,omitempty"`
	Info    bool `json:"info,omitempty"`
	// Invalid: non-empty when the generator deliberately made this call violate a
	// documented rule; the value names the cause (see invalid.go).
	Invalid string `json:"inv,omitempty"`
	// Garbage: index into History.Garbage for C14 inputs (Fn unused).
	Garbage int `json:"gb,omitempty"`
	// VisErrOf: for visualize ops, index of an earlier op whose error is passed to VisualizeError (+1; 0 none).
	VisErrOf int `json:"ve,omitempty"`
}

type Options struct {
	Defer    bool  `json:"defer,omitempty"`
	Recover  bool  `json:"recover,omitempty"`
	Dry      bool  `json:"dry,omitempty"`
	RandSeed int64 `json:"rs,omitempty"`
	// OptOrder > 0: the container options are passed to dig.New in the permutation this number encodes.
	OptOrder int64 `json:"oo,omitempty"`
	// ReuseInfo: one ProvideInfo, one DecorateInfo and one InvokeInfo struct are handed to every call of the
	// history that asks for Info (instead of a fresh struct per call): an accepted call must overwrite what an
	// earlier call left there, a rejected one must leave exactly that.
	ReuseInfo bool `json:"ri,omitempty"`
}

// History is a complete, self-contained test case.
type History struct {
	Opts    Options       `json:"opts"`
	Fns     []*Fn         `json:"fns"`
	Ops     []Op          `json:"ops"`
	Garbage []GarbageSpec `json:"garbage,omitempty"`
	Note    string        `json:"note,omitempty"`
}

func (h *History) Clone() *History {
	n := &History{Opts: h.Opts, Note: h.Note}
	for _, f := range h.Fns {
		g := *f
		g.Params = append([]Param(nil), f.Params...)
		g.Results = append([]Res(nil), f.Results...)
		g.PEnc = cloneEnc(f.PEnc)
		g.REnc = cloneEnc(f.REnc)
		if f.Faults != nil {
			g.Faults = map[int]string{}
			for k, v := range f.Faults {
				g.Faults[k] = v
			}
		}
		n.Fns = append(n.Fns, &g)
	}
	for _, o := range h.Ops {
		o.As = append([]int(nil), o.As...)
		n.Ops = append(n.Ops, o)
	}
	n.Garbage = append([]GarbageSpec(nil), h.Garbage...)
	return n
}

func cloneEnc(e []Enc) []Enc {
	if e == nil {
		return nil
	}
	out := make([]Enc, len(e))
	for i, x := range e {
		out[i] = x
		out[i].Obj = cloneEnc(x.Obj)
	}
	return out
}

// Describe renders the history as readable lines (used in replay files and samples).
func (h *History) Describe() []string {
	var out []string
	out = append(out, fmt.Sprintf("options: defer=%v recover=%v dry=%v", h.Opts.Defer, h.Opts.Recover, h.Opts.Dry))
	for i, o := range h.Ops {
		var s string
		switch o.Kind {
		case OpScope:
			s = fmt.Sprintf("scope: new child of s%d", o.Scope)
		case OpProvide, OpDecorate, OpInvoke:
			if o.Garbage > 0 {
				s = fmt.Sprintf("%s s%d garbage %s", o.Kind, o.Scope, h.Garbage[o.Garbage-1].String())
				break
			}
			s = fmt.Sprintf("%s s%d %s", o.Kind, o.Scope, h.Fns[o.Fn].Sig())
			if o.Export {
				s += " Export"
			}
			if o.NameOpt != "" {
				s += fmt.Sprintf(" Name(%q)", o.NameOpt)
			}
			if o.GroupOpt != "" {
				s += fmt.Sprintf(" Group(%q)", o.GroupOpt)
			}
			if len(o.As) > 0 {
				s += fmt.Sprintf(" As%v", o.As)
			}
			if o.Callback {
				s += " callback"
				if o.CbPanic {
					s += "(panics once)"
				}
			}
			if o.Info {
				s += " info"
			}
			if o.Invalid != "" {
				s += " INVALID:" + o.Invalid
			}
		default:
			s = o.Kind
			if o.VisErrOf > 0 {
				s += fmt.Sprintf(" error-of-op%d", o.VisErrOf-1)
			}
		}
		out = append(out, fmt.Sprintf("op%d %s", i, s))
	}
	return out
}
