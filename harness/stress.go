package main

import (
	"flag"
	"fmt"
	"sort"
	"sync"
)

// stressMode: many independent containers driven concurrently (sanitizer build, `./verif.sh race`).
// dig promises nothing about concurrent use of ONE container; independent containers must not share
// mutable state. Every goroutine owns its World and Monitor; process-global monitor tables are off.
var stressMode bool

func cmdStress(args []string) {
	fs := flag.NewFlagSet("stress", flag.ExitOnError)
	g := fs.Int("g", 16, "goroutines")
	n := fs.Int("n", 2000, "histories per goroutine")
	seed := fs.Int64("seed", 1, "seed")
	profile := fs.String("profile", "general", "profile")
	fs.Parse(args)
	stressMode = true
	p := profileByName(*profile)
	var mu sync.Mutex
	rules := map[string]int{}
	total, enters := 0, 0
	var wg sync.WaitGroup
	for k := 0; k < *g; k++ {
		wg.Add(1)
		go func(k int) {
			defer wg.Done()
			for i := 0; i < *n; i++ {
				h := genHistory(caseRand(*seed, fmt.Sprintf("stress:%s:%d", *profile, k), i), p)
				w := newWorld(h, true, false)
				w.Run()
				mu.Lock()
				total++
				enters += w.mon.stats["enter"]
				for _, v := range w.mon.viol {
					rules[v.Rule]++
				}
				mu.Unlock()
			}
		}(k)
	}
	wg.Wait()
	fmt.Printf("stress: %d histories on %d goroutines, %d user-function executions monitored\n", total, *g, enters)
	var rs []string
	for r := range rules {
		rs = append(rs, r)
	}
	sort.Strings(rs)
	for _, r := range rs {
		fmt.Printf("stress: rule %s fired in %d histories\n", r, rules[r])
	}
}
