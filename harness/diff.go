package main

import (
	. "digverif/vt"
	"fmt"
	"math/rand"
	"sort"
	"strings"
)

// Differential (metamorphic) runner: a history H and a transformed history T(H) are
// run on fresh containers and their observation summaries compared.

type opSummary struct {
	Kind    string
	Verdict string
	Execs   []string // sorted "f<id>#<exec>(args)=><outcome>"
	Info    []string
	Touched bool
	Dot     string
	Str     []string
}

func absTok(t *Tok) string {
	if t == nil {
		return "zero"
	}
	return fmt.Sprintf("f%d#%d.%d.%d", t.Fn, t.Exec, t.Slot, t.Elem)
}

func summarize(w *World) []opSummary { return summarizeMasked(w, false) }

// summarizeMasked: with maskSoft, what a soft group parameter received is not part of the summary (it depends on
// what has run before the parameter is built, which the position among the parameters decides).
func summarizeMasked(w *World, maskSoft bool) []opSummary {
	out := make([]opSummary, len(w.h.Ops))
	for i, op := range w.h.Ops {
		rec := w.ops[i]
		s := opSummary{Kind: op.Kind}
		if rec == nil {
			out[i] = s
			continue
		}
		s.Verdict = rec.Verdict
		for _, e := range rec.Execs {
			var args []string
			for ai, a := range e.Args {
				if maskSoft && e.Fn < len(w.h.Fns) && ai < len(w.h.Fns[e.Fn].Params) && w.h.Fns[e.Fn].Params[ai].Soft {
					args = append(args, "[~soft]")
					continue
				}
				var ts []string
				for _, t := range a {
					ts = append(ts, absTok(t))
				}
				sort.Strings(ts)
				args = append(args, "["+strings.Join(ts, " ")+"]")
			}
			s.Execs = append(s.Execs, fmt.Sprintf("f%d#%d(%s)=>%s", e.Fn, e.Exec, strings.Join(args, ","), e.Outcome))
		}
		sort.Strings(s.Execs)
		s.Info = rec.Info
		s.Touched = rec.InfoTouched
		s.Dot = rec.Dot
		if rec.Str != "" {
			s.Str = strings.Split(rec.Str, "\n")
			sort.Strings(s.Str)
		}
		out[i] = s
	}
	return out
}

type diffFlags struct {
	execs   bool // compare execution sets with abstracted arguments
	onlyOK  bool // compare execs only for ops that are ok on both sides
	info    bool
	dot     bool
	str     bool
	classes map[string]string // verdict class normalisation
}

func normClass(f diffFlags, v string) string {
	if f.classes != nil {
		if n, ok := f.classes[v]; ok {
			return n
		}
	}
	return v
}

// compareSummaries compares op a[i] with b[mapping[i]] (mapping[i] < 0: no counterpart).
func compareSummaries(a, b []opSummary, mapping []int, f diffFlags, ha, hb *History) (string, int, int) {
	n := 0
	for i, j := range mapping {
		if j < 0 {
			continue
		}
		n++
		x, y := a[i], b[j]
		desc := func() string { return fmt.Sprintf("op%d (%s) vs op%d", i, strings.Join(ha.Describe()[i+1:i+2], ""), j) }
		if normClass(f, x.Verdict) != normClass(f, y.Verdict) {
			return fmt.Sprintf("%s: verdict %s vs %s", desc(), x.Verdict, y.Verdict), i, n
		}
		if f.execs && !(f.onlyOK && (x.Verdict != VOk || y.Verdict != VOk)) {
			if strings.Join(x.Execs, ";") != strings.Join(y.Execs, ";") {
				return fmt.Sprintf("%s: executions differ: %v vs %v", desc(), x.Execs, y.Execs), i, n
			}
		}
		if f.info {
			if strings.Join(x.Info, ";") != strings.Join(y.Info, ";") || x.Touched != y.Touched {
				return fmt.Sprintf("%s: Info differs: %v vs %v", desc(), x.Info, y.Info), i, n
			}
		}
		if f.dot && x.Dot != y.Dot {
			return fmt.Sprintf("%s: Visualize output differs:\n%s\n--- vs ---\n%s", desc(), x.Dot, y.Dot), i, n
		}
		if f.str && strings.Join(x.Str, "\n") != strings.Join(y.Str, "\n") {
			return fmt.Sprintf("%s: String() differs: %v vs %v", desc(), x.Str, y.Str), i, n
		}
	}
	return "", -1, n
}

func runPlain(h *History, trace bool) *World {
	w := newWorld(h, false, trace)
	w.Run()
	return w
}

func identityMapping(n int) []int {
	m := make([]int, n)
	for i := range m {
		m[i] = i
	}
	return m
}

func tseed(c *Case) int64 {
	if c.X != nil {
		if v, ok := c.X["tseed"]; ok {
			switch x := v.(type) {
			case float64:
				return int64(x)
			case int64:
				return x
			case int:
				return int64(x)
			}
		}
	}
	return 1
}

// removeOps returns a copy of h without the ops in drop, and the index mapping old -> new.
func removeOps(h *History, drop map[int]bool) (*History, []int) {
	t := h.Clone()
	t.Ops = nil
	mapping := make([]int, len(h.Ops))
	for i, op := range h.Ops {
		if drop[i] {
			mapping[i] = -1
			continue
		}
		mapping[i] = len(t.Ops)
		t.Ops = append(t.Ops, op)
	}
	for i := range t.Ops {
		if v := t.Ops[i].VisErrOf; v > 0 {
			if mapping[v-1] >= 0 {
				t.Ops[i].VisErrOf = mapping[v-1] + 1
			} else {
				t.Ops[i].VisErrOf = 0
			}
		}
	}
	return t, mapping
}

func isReg(k string) bool { return k == OpProvide || k == OpDecorate }

// ---- C06: H vs H without the rejected registrations ----

func checkC06(c *Case, trace bool) *CaseResult {
	res := &CaseResult{Stats: map[string]int{}, Situ: map[string]int{}, Shape: shapeOf(c.H)}
	a := runPlain(c.H, trace)
	drop := map[int]bool{}
	for i, op := range c.H.Ops {
		if isReg(op.Kind) && a.ops[i] != nil && a.ops[i].Verdict != VOk {
			drop[i] = true
			res.Stats["diff.rejected."+a.ops[i].Verdict]++
			if op.Invalid != "" {
				res.Situ["rejected/"+op.Kind+"/"+op.Invalid]++
			} else {
				res.Situ["rejected/"+op.Kind+"/"+a.ops[i].Verdict]++
			}
		}
	}
	res.Stats["diff.pairs"]++
	res.Stats["diff.rejected-removed"] += len(drop)
	res.Relevant = len(drop) > 0
	res.Log = a.log
	if len(drop) == 0 {
		return res
	}
	t, mapping := removeOps(c.H, drop)
	b := runPlain(t, trace)
	msg, at, n := compareSummaries(summarize(a), summarize(b), mapping, diffFlags{execs: true, info: true, dot: true, str: true}, c.H, t)
	res.Stats["diff.ops-compared"] += n
	if trace {
		res.Log = append(res.Log, "--- same history without the rejected calls")
		res.Log = append(res.Log, b.log...)
	}
	// a rejected function must never be executed
	rejectedFn := map[int]bool{}
	for i := range drop {
		if c.H.Ops[i].Garbage == 0 {
			rejectedFn[c.H.Ops[i].Fn] = true
		}
	}
	for i, rec := range a.ops {
		if rec == nil {
			continue
		}
		for _, e := range rec.Execs {
			if rejectedFn[e.Fn] {
				res.Viol = append(res.Viol, Violation{Props: []string{"C06"}, Rule: "C06.rejected-function-executed", Op: i,
					Msg: fmt.Sprintf("f%d was rejected by its registration but executed in op%d", e.Fn, i)})
				return res
			}
		}
	}
	if msg != "" {
		res.Viol = append(res.Viol, Violation{Props: []string{"C06"}, Rule: "C06.trace-of-rejected-call", Op: at,
			Msg: "history differs from the same history without its rejected registrations: " + msg})
		return res
	}
	// a rejected call must not block a later registration: each rejected, not deliberately invalid
	// registration (up to 3) is replayed on the history prefix without the earlier rejected calls;
	// its verdict class must not depend on them
	checked := 0
	for j, op := range c.H.Ops {
		if !drop[j] || op.Invalid != "" || op.Garbage > 0 || checked >= 3 {
			continue
		}
		earlier := false
		for k := range drop {
			if k < j {
				earlier = true
			}
		}
		if !earlier {
			continue
		}
		checked++
		pre := c.H.Clone()
		pre.Ops = nil
		for k, o := range c.H.Ops[:j] {
			if !drop[k] {
				pre.Ops = append(pre.Ops, o)
			}
		}
		for k := range pre.Ops {
			pre.Ops[k].VisErrOf = 0
		}
		pre.Ops = append(pre.Ops, op)
		pw := runPlain(pre, false)
		got := pw.ops[len(pre.Ops)-1].Verdict
		res.Stats["diff.rejections-revalidated"]++
		if got != a.ops[j].Verdict {
			res.Viol = append(res.Viol, Violation{Props: []string{"C06"}, Rule: "C06.rejected-call-changes-later-verdict", Op: j,
				Msg: fmt.Sprintf("op%d (%s) is %s in the history but %s when the earlier rejected calls are left out", j, c.H.Describe()[j+1], a.ops[j].Verdict, got)})
			return res
		}
	}
	return res
}

// ---- C17: dry container vs normal container ----

func checkC17(c *Case, trace bool) *CaseResult {
	res := &CaseResult{Stats: map[string]int{}, Situ: map[string]int{}, Shape: shapeOf(c.H)}
	normal := c.H.Clone()
	normal.Opts.Dry = false
	for _, f := range normal.Fns {
		f.Faults = nil
		// some functions declare a concrete error type and return its nil value: a failure by Go's typed-nil
		// rule, which the dry container has to report as well
		if f.HasErr && f.Pool == 0 && (normal.Opts.RandSeed+int64(f.ID))%6 == 0 {
			f.ErrType = 1
			res.Stats["diff.concrete-error-type"]++
		}
	}
	dry := normal.Clone()
	dry.Opts.Dry = true
	a := runPlain(normal, trace)
	b := runPlain(dry, trace)
	res.Stats["diff.pairs"]++
	res.Relevant = true
	res.Log = append(append(a.log, "--- dry container"), b.log...)
	for i, rec := range b.ops {
		if rec == nil {
			continue
		}
		res.Stats["dry.ops"]++
		res.Situ["dry/"+c.H.Ops[i].Kind+"/"+rec.Verdict]++
		if len(rec.Execs) > 0 {
			res.Viol = append(res.Viol, Violation{Props: []string{"C17"}, Rule: "C17.dry-executed", Op: i,
				Msg: fmt.Sprintf("f%d executed in a DryRun container during op%d (%s)", rec.Execs[0].Fn, i, c.H.Ops[i].Kind)})
			return res
		}
		if rec.Panic != nil {
			res.Viol = append(res.Viol, Violation{Props: []string{"C17", "C14"}, Rule: "C17.dry-panic", Op: i,
				Msg: fmt.Sprintf("op%d panicked in a DryRun container: %v", i, rec.Panic)})
			return res
		}
	}
	msg, at, n := compareSummaries(summarize(a), summarize(b), identityMapping(len(c.H.Ops)), diffFlags{info: true, dot: true}, normal, dry)
	res.Stats["diff.ops-compared"] += n
	if msg != "" {
		res.Viol = append(res.Viol, Violation{Props: []string{"C17"}, Rule: "C17.verdict-differs", Op: at,
			Msg: "dry container disagrees with the normal container: " + msg})
	}
	return res
}

// ---- C15: equivalent encodings ----

func transformEncodings(h *History, r *rand.Rand) (*History, int) {
	t := h.Clone()
	g := &gen{r: r, p: baseProfile(), h: t}
	g.p.PNested = 0.7
	changed := 0
	asFn := map[int]bool{}
	regOp := map[int]int{}
	for i, op := range t.Ops {
		if len(op.As) > 0 {
			asFn[op.Fn] = true
		}
		if isReg(op.Kind) && op.Garbage == 0 {
			regOp[op.Fn] = i
		}
	}
	for _, f := range t.Fns {
		if asFn[f.ID] {
			continue
		}
		i, isRegistered := regOp[f.ID]
		viaOpt := false
		if isRegistered && t.Ops[i].Kind == OpProvide && t.Ops[i].Invalid == "" && len(f.Results) > 0 {
			op := &t.Ops[i]
			r0 := f.Results[0]
			same := r0.K.Name != "" || r0.K.Group != ""
			for _, x := range f.Results {
				if x.K.Name != r0.K.Name || x.K.Group != r0.K.Group || x.Flatten != r0.Flatten {
					same = false
				}
			}
			// move names/groups between option and tags
			if same && r.Intn(2) == 0 {
				if r0.K.Group != "" {
					op.GroupOpt = r0.K.Group
					if r0.Flatten {
						op.GroupOpt += ",flatten"
					}
				} else {
					op.NameOpt = r0.K.Name
				}
				viaOpt = true
			} else {
				op.NameOpt, op.GroupOpt = "", ""
			}
		} else if isRegistered {
			viaOpt = t.Ops[i].NameOpt != "" || t.Ops[i].GroupOpt != ""
		}
		f.PEnc, f.REnc = nil, nil
		g.encode(f, viaOpt)
		if viaOpt {
			f.REnc = nil
		}
		f.Variadic = r.Intn(3) == 0
		changed++
	}
	return t, changed
}

func checkC15(c *Case, trace bool) *CaseResult {
	res := &CaseResult{Stats: map[string]int{}, Situ: map[string]int{}, Shape: shapeOf(c.H)}
	t, changed := transformEncodings(c.H, rand.New(rand.NewSource(tseed(c))))
	a := runPlain(c.H, trace)
	b := runPlain(t, trace)
	res.Stats["diff.pairs"]++
	res.Stats["diff.transformed-fns"] += changed
	res.Relevant = changed > 0
	res.Log = append(append(a.log, "--- re-encoded history"), b.log...)
	if trace {
		res.Log = append(res.Log, "--- re-encoded history description")
		res.Log = append(res.Log, t.Describe()...)
		for _, f := range t.Fns {
			res.Log = append(res.Log, fmt.Sprintf("f%d penc=%v renc=%v variadic=%v", f.ID, f.PEnc, f.REnc, f.Variadic))
		}
	}
	maskSoft := c.Kind == "diff:c15big"
	msg, at, n := compareSummaries(summarizeMasked(a, maskSoft), summarizeMasked(b, maskSoft), identityMapping(len(c.H.Ops)), diffFlags{execs: true, info: true}, c.H, t)
	res.Stats["diff.ops-compared"] += n
	if msg != "" {
		res.Viol = append(res.Viol, Violation{Props: []string{"C15"}, Rule: "C15.encoding-changes-behaviour", Op: at,
			Msg: "re-encoded history behaves differently: " + msg})
	}
	return res
}

// ---- C16: registration order, scope creation time, Defer ----

// transformOrder permutes maximal runs of registrations between Invokes, moves scope creations and
// optionally toggles DeferAcyclicVerification. Input h must have no rejected registrations.
func transformOrder(h *History, r *rand.Rand, toggleDefer bool) (*History, []int, int) {
	type item struct {
		op    Op
		orig  int
		scope int // original scope id created by this op (OpScope)
	}
	// name scopes by original creation index
	var items []item
	next := 1
	for i, op := range h.Ops {
		it := item{op: op, orig: i}
		if op.Kind == OpScope {
			it.scope = next
			next++
		}
		items = append(items, it)
	}
	nScopes := next
	// 1. permute maximal runs of registrations (scope ops and visualize/string stay as separators? no:
	// scope creations are moved in step 2; visualize/string are observers and stay in place)
	permuted := 0
	i := 0
	for i < len(items) {
		if !isReg(items[i].op.Kind) {
			i++
			continue
		}
		j := i
		var idx []int
		for j < len(items) && (isReg(items[j].op.Kind) || items[j].op.Kind == OpScope) {
			if isReg(items[j].op.Kind) {
				idx = append(idx, j)
			}
			j++
		}
		if len(idx) > 1 {
			perm := r.Perm(len(idx))
			tmp := make([]item, len(idx))
			for k, p := range perm {
				tmp[k] = items[idx[p]]
			}
			for k, pos := range idx {
				items[pos] = tmp[k]
			}
			permuted++
		}
		i = j
	}
	// 2. move each scope creation anywhere between its parent's creation and its first use
	var scopeItems []item
	var rest []item
	for _, it := range items {
		if it.op.Kind == OpScope {
			scopeItems = append(scopeItems, it)
		} else {
			rest = append(rest, it)
		}
	}
	// a scope is "used" by every op targeting it or one of its descendants
	parentOf := make([]int, nScopes)
	for _, sc := range scopeItems {
		parentOf[sc.scope] = sc.op.Scope
	}
	inSubtree := func(s, root int) bool {
		for ; s != 0; s = parentOf[s] {
			if s == root {
				return true
			}
		}
		return false
	}
	// insert scope creations (in original order, parents first) at random legal positions
	for _, sc := range scopeItems {
		parent := sc.op.Scope
		lo := 0
		if parent != 0 {
			for k, it := range rest {
				if it.op.Kind == OpScope && it.scope == parent {
					lo = k + 1
				}
			}
		}
		hi := len(rest)
		for k, it := range rest {
			uses := false
			if it.op.Kind != OpVisualize && it.op.Kind != OpString {
				uses = inSubtree(it.op.Scope, sc.scope)
			}
			if uses {
				hi = k
				break
			}
		}
		if hi < lo {
			hi = lo
		}
		pos := lo
		if hi > lo {
			pos = lo + r.Intn(hi-lo+1)
		}
		rest = append(rest[:pos:pos], append([]item{sc}, rest[pos:]...)...)
	}
	// 3. renumber scopes by new creation order
	remap := make([]int, nScopes)
	n := 1
	for _, it := range rest {
		if it.op.Kind == OpScope {
			remap[it.scope] = n
			n++
		}
	}
	t := h.Clone()
	t.Ops = nil
	mapping := make([]int, len(h.Ops))
	for k, it := range rest {
		op := it.op
		if op.Kind != OpVisualize && op.Kind != OpString {
			op.Scope = remap[op.Scope]
		}
		mapping[it.orig] = k
		t.Ops = append(t.Ops, op)
	}
	for k := range t.Ops {
		if v := t.Ops[k].VisErrOf; v > 0 {
			t.Ops[k].VisErrOf = mapping[v-1] + 1
		}
	}
	if toggleDefer {
		t.Opts.Defer = !t.Opts.Defer
	}
	return t, mapping, permuted
}

func checkC16(c *Case, trace bool) *CaseResult {
	res := &CaseResult{Stats: map[string]int{}, Situ: map[string]int{}, Shape: shapeOf(c.H)}
	// base: the history without faults and without its rejected registrations
	base := c.H.Clone()
	for _, f := range base.Fns {
		f.Faults = nil
	}
	first := runPlain(base, false)
	drop := map[int]bool{}
	sawCycle := false
	for i, op := range base.Ops {
		if first.ops[i] == nil {
			continue
		}
		if first.ops[i].Verdict == VCycle {
			sawCycle = true
		}
		if isReg(op.Kind) && first.ops[i].Verdict != VOk {
			drop[i] = true
		}
	}
	h1, _ := removeOps(base, drop)
	r := rand.New(rand.NewSource(tseed(c)))
	toggle := !sawCycle && (r.Intn(3) == 0 || c.Kind == "diff:c16defer")
	t, mapping, permuted := transformOrder(h1, r, toggle)
	a := runPlain(h1, trace)
	b := runPlain(t, trace)
	res.Stats["diff.pairs"]++
	res.Stats["diff.permuted-runs"] += permuted
	if toggle {
		res.Stats["diff.defer-toggled"]++
	}
	res.Relevant = permuted > 0 || toggle
	res.Log = append(append(a.log, "--- reordered history"), b.log...)
	if trace {
		res.Log = append(res.Log, t.Describe()...)
	}
	sa, sb := summarize(a), summarize(b)
	if toggle {
		// only valid when neither side ever reports a cycle
		for _, s := range sb {
			if s.Verdict == VCycle {
				res.Stats["diff.defer-toggle-skipped"]++
				return res
			}
		}
		for _, s := range sa {
			if s.Verdict == VCycle {
				res.Stats["diff.defer-toggle-skipped"]++
				return res
			}
		}
	}
	// registrations: the block must stay all-accepted; invokes: same verdict class; wiring: what the
	// invoked function of a successful Invoke received, and what each constructor/decorator received
	// (whenever it ran: a failing Invoke may build a different part of its closure first).
	// several failure causes may coexist and which one is met first depends on feeder order:
	// the claim is about success vs. failure
	failClasses := map[string]string{VCycle: "fail", VDig: "fail"}
	msg, at, n := compareSummaries(sa, sb, mapping, diffFlags{classes: failClasses}, h1, t)
	res.Stats["diff.ops-compared"] += n
	if msg == "" {
		wiring := func(w *World, ops []int) (map[int]string, map[int]string) {
			perFn := map[int]string{}
			perInvoke := map[int]string{}
			for k, rec := range w.ops {
				if rec == nil || rec.Verdict != VOk {
					// what a failing Invoke built before failing depends on the order of
					// group feeders (registration order): not part of the claim
					continue
				}
				for _, e := range rec.Execs {
					if e.Outcome != "ok" {
						continue
					}
					var args []string
					for ai, a := range e.Args {
						if fspec := w.h.Fns[e.Fn]; ai < len(fspec.Params) && fspec.Params[ai].Soft {
							// the content of a soft group legitimately depends on what happened to be built (C11)
							args = append(args, "[~soft]")
							continue
						}
						var ts []string
						for _, tk := range a {
							if tk == nil {
								ts = append(ts, "zero")
							} else {
								ts = append(ts, fmt.Sprintf("f%d.%d.%d", tk.Fn, tk.Slot, tk.Elem))
							}
						}
						sort.Strings(ts)
						args = append(args, "["+strings.Join(ts, " ")+"]")
					}
					sig := strings.Join(args, ",")
					if w.h.Ops[k].Kind == OpInvoke && e.Fn == w.h.Ops[k].Fn {
						perInvoke[ops[k]] = sig
					} else {
						perFn[e.Fn] = sig
					}
				}
			}
			return perFn, perInvoke
		}
		inv := make([]int, len(t.Ops))
		for i, j := range mapping {
			inv[j] = i
		}
		fa, ia := wiring(a, identityMapping(len(h1.Ops)))
		fb, ib := wiring(b, inv)
		for k, x := range ia {
			if y, ok := ib[k]; ok && x != y {
				msg, at = fmt.Sprintf("op%d: invoked function received %s in one order and %s in the other", k, x, y), k
			}
		}
		for f, x := range fa {
			if y, ok := fb[f]; ok && x != y {
				msg, at = fmt.Sprintf("f%d received %s in one order and %s in the other", f, x, y), -1
			}
		}
		res.Stats["diff.wirings-compared"] += len(ia) + len(fa)
	}
	if msg != "" {
		v := Violation{Props: []string{"C16"}, Rule: "C16.order-changes-behaviour", Op: at,
			Msg: "reordered history behaves differently: " + msg}
		// two situations in which dig's outcome is known to depend on the order (known findings F22, F23)
		// get a witness class of their own, so that any other order dependence is still reported
		wm := newWorld(h1, true, false)
		wm.Run()
		wt := newWorld(t, true, false)
		wt.Run()
		switch {
		case mediatedCycleInvolved(wm, at) || mediatedCycleInvolved(wt, -1):
			v.Class = "decorator-mediated-cycle"
			res.Stats["diff.c16.decorator-mediated-cycle"]++
		case feederOrderDiffers(h1, t) && cutShortDiffers(a, b, mapping, wm.mon.swallowedOps, wt.mon.swallowedOps):
			// F23: two feeders of one value group were registered in a different order, and an Invoke that a
			// failure cut short (or an optional edge rescued) got to different points. Without swapped feeders
			// (e.g. a pair that differs in DeferAcyclicVerification only) the divergence is something else.
			v.Class = "after-failed-invoke"
			res.Stats["diff.c16.after-failed-invoke"]++
		}
		res.Viol = append(res.Viol, v)
	}
	return res
}

// mediatedCycleInvolved (known finding F22): a decorator that lies on a decorator-mediated cycle can take
// part in the resolution of the divergent Invoke (op index at; at < 0: of some Invoke of the history).
func mediatedCycleInvolved(w *World, at int) bool {
	cyc := w.mon.decoratorsInMediatedCycle(w.mon.role)
	if len(cyc) == 0 {
		return false
	}
	for op, may := range w.mon.mayOf {
		if at >= 0 && op != at {
			continue
		}
		for d := range cyc {
			if may[d] {
				return true
			}
		}
	}
	return false
}

// cutShortDiffers (known finding F23): some Invoke that a dependency failure cut short - it failed in
// one of the orders, or an optional edge swallowed a missing dependency in it - executed different sets of
// functions in the two orders. Differences in Invokes without any dependency failure do not count: they
// are never legitimate.
func cutShortDiffers(a, b *World, mapping []int, swA, swB map[int]bool) bool {
	for k, ra := range a.ops {
		if ra == nil || a.h.Ops[k].Kind != OpInvoke || a.h.Ops[k].Invalid != "" || k >= len(mapping) || mapping[k] < 0 || mapping[k] >= len(b.ops) || b.ops[mapping[k]] == nil {
			continue
		}
		rb := b.ops[mapping[k]]
		if ra.Verdict == VOk && rb.Verdict == VOk && !swA[k] && !swB[mapping[k]] {
			continue
		}
		sa, sb := map[int]bool{}, map[int]bool{}
		for _, e := range ra.Execs {
			sa[e.Fn] = true
		}
		for _, e := range rb.Execs {
			sb[e.Fn] = true
		}
		if len(sa) != len(sb) {
			return true
		}
		for f := range sa {
			if !sb[f] {
				return true
			}
		}
	}
	return false
}

// feederOrderDiffers: two constructors that feed the same value group (same element type and group name, in any
// scopes) are registered in one order in h1 and in the other order in h2.
func feederOrderDiffers(h1, h2 *History) bool {
	pos := func(h *History) map[int]int {
		p := map[int]int{}
		for i, op := range h.Ops {
			if op.Kind == OpProvide && op.Garbage == 0 {
				p[op.Fn] = i
			}
		}
		return p
	}
	p1, p2 := pos(h1), pos(h2)
	feeds := map[Key][]int{}
	for _, f := range h1.Fns {
		if _, ok := p1[f.ID]; !ok {
			continue
		}
		seen := map[Key]bool{}
		for _, r := range f.Results {
			if r.K.Group != "" && !seen[r.K] {
				seen[r.K] = true
				feeds[r.K] = append(feeds[r.K], f.ID)
			}
		}
	}
	for _, fs := range feeds {
		for i := 0; i < len(fs); i++ {
			for j := i + 1; j < len(fs); j++ {
				a, b := fs[i], fs[j]
				if _, ok := p2[a]; !ok {
					continue
				}
				if _, ok := p2[b]; !ok {
					continue
				}
				if (p1[a] < p1[b]) != (p2[a] < p2[b]) {
					return true
				}
			}
		}
	}
	return false
}

// builtSetsDiffer: in some Invoke the two orders executed different sets of functions. That only
// happens when a dependency failure cut the Invoke short (the Invoke failed, or an optional edge
// swallowed a missing dependency): how far it got depends on the order of value-group feeders.
func builtSetsDiffer(a, b *World, mapping []int) bool {
	for k, ra := range a.ops {
		if ra == nil || a.h.Ops[k].Kind != OpInvoke || k >= len(mapping) || mapping[k] < 0 || mapping[k] >= len(b.ops) || b.ops[mapping[k]] == nil {
			continue
		}
		sa, sb := map[int]bool{}, map[int]bool{}
		for _, e := range ra.Execs {
			sa[e.Fn] = true
		}
		for _, e := range b.ops[mapping[k]].Execs {
			sb[e.Fn] = true
		}
		if len(sa) != len(sb) {
			return true
		}
		for f := range sa {
			if !sb[f] {
				return true
			}
		}
	}
	return false
}

// failedInvokeBefore: some Invoke before op index limit failed (what it had built before failing is cached).
func failedInvokeBefore(w *World, limit int) bool {
	for k, rec := range w.ops {
		if k >= limit || rec == nil {
			continue
		}
		if w.h.Ops[k].Kind == OpInvoke && w.h.Ops[k].Invalid == "" && rec.Verdict != VOk {
			return true
		}
	}
	return false
}
