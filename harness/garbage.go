package main

import (
	. "digverif/vt"
	"fmt"
	"math/rand"
	"reflect"
	"strings"

	"go.uber.org/dig"
)

// C14: grammar-generated garbage thrown at Provide / Decorate / Invoke and at the option constructors.

// GarbageSpec is fully determined by its seed.
type GarbageSpec struct {
	Seed int64 `json:"seed"`
	// ProbeOf > 0: not garbage itself but a function consuming every result the garbage function
	// History.Garbage[ProbeOf-1] declares (so that whatever an accepted garbage registration put
	// into the container is actually resolved).
	ProbeOf int `json:"probe,omitempty"`
}

// declared zoo for embeddings that reflect.StructOf cannot express
type ZIn1 struct {
	dig.In
	A V0
	B *V1 `optional:"true"`
}
type ZIn2 struct {
	ZIn1
	C V2 `name:"n1"`
}
type ZIn3 struct {
	ZIn2
	D []V0 `group:"g1"`
}
type ZInPtr struct {
	*dig.In
	A V0
}
type ZInPtr2 struct {
	ZInPtr
	B V1
}
type ZOut1 struct {
	dig.Out
	A V0
	B V1 `name:"n1"`
}
type ZOut2 struct {
	ZOut1
	C V2 `group:"g1"`
}
type ZOutPtr struct {
	*dig.Out
	A V0
}
type ZInOut struct {
	dig.In
	dig.Out
	A V0
}
type zUnexp struct {
	dig.In
	A V0
	b V1
}
type ZIgn struct {
	dig.In `ignore-unexported:"true"`
	A      V0
	b      V1
}
type ZIgnBad struct {
	dig.In `ignore-unexported:"maybe"`
	A      V0
}

// an embedded (anonymous) non-struct dependency declared BEFORE the struct that brings in dig.In / dig.Out
type ZSrc interface{ ZNext() int }
type ZSrc2 interface{ ZNext2() int }
type ZBaseIn struct {
	dig.In
	A V0
}
type ZEmbIfaceBeforeIn struct {
	ZSrc
	ZBaseIn
}
type ZEmbPtrBeforeIn struct {
	*V4
	ZBaseIn
}
type ZBaseOut struct {
	dig.Out
	A V0
}
type ZEmbIfaceBeforeOut struct {
	ZSrc2
	ZBaseOut
}
type ZEmbPtrBeforeOut struct {
	*V5
	ZBaseOut
}

// parameter / result objects that embed ANOTHER object whose type name is lower case (an unexported embedded field)
type zcommonIn struct {
	dig.In
	A V0
}
type ZEmbLowerIn struct {
	zcommonIn
	B V1
}
type zcommonOut struct {
	dig.Out
	A V0
}
type ZEmbLowerOut struct {
	zcommonOut
	B V1
}

// objects and plain structs with ten embedded (anonymous) fields
type (
	ZE0 struct{ A0 V0 }
	ZE1 struct{ A1 V1 }
	ZE2 struct{ A2 V2 }
	ZE3 struct{ A3 V3 }
	ZE4 struct{ A4 V0 }
	ZE5 struct{ A5 V1 }
	ZE6 struct{ A6 V2 }
	ZE7 struct{ A7 V3 }
	ZE8 struct{ A8 V0 }
	ZE9 struct{ A9 V1 }
)
type ZEmb10 struct {
	ZE0
	ZE1
	ZE2
	ZE3
	ZE4
	ZE5
	ZE6
	ZE7
	ZE8
	ZE9
}
type ZEmb10In struct {
	ZE0
	ZE1
	ZE2
	ZE3
	ZE4
	ZE5
	ZE6
	ZE7
	ZE8
	ZE9
	dig.In
}
type ZEmb10Out struct {
	ZE0
	ZE1
	ZE2
	ZE3
	ZE4
	ZE5
	ZE6
	ZE7
	ZE8
	ZE9
	dig.Out
}
type ZNamedSlice []V0

func (ZNamedSlice) M0() {}

// concrete (non-pointer, non-interface) types that implement error with a value receiver
type ZErrVal int

func (ZErrVal) Error() string { return "zerrval" }

type ZErrStruct struct{ Code int }

func (ZErrStruct) Error() string { return "zerrstruct" }

type ZNamedFunc func() V0
type ZErr struct{}

func (*ZErr) Error() string { return "zerr" }

var zooTypes = []reflect.Type{
	reflect.TypeOf(ZIn1{}), reflect.TypeOf(ZIn2{}), reflect.TypeOf(ZIn3{}), reflect.TypeOf(ZInPtr{}), reflect.TypeOf(ZInPtr2{}),
	reflect.TypeOf(ZOut1{}), reflect.TypeOf(ZOut2{}), reflect.TypeOf(ZOutPtr{}), reflect.TypeOf(ZInOut{}), reflect.TypeOf(zUnexp{}),
	reflect.TypeOf(ZIgn{}), reflect.TypeOf(ZIgnBad{}), reflect.TypeOf(ZNamedSlice{}), reflect.TypeOf(ZNamedFunc(nil)),
	reflect.TypeOf(&ZErr{}), reflect.TypeOf(&ZIn1{}), reflect.TypeOf(&ZOut1{}), reflect.TypeOf(dig.In{}), reflect.TypeOf(dig.Out{}),
	reflect.TypeOf(&dig.In{}), reflect.TypeOf(&dig.Out{}), reflect.TypeOf([]ZIn1{}), reflect.TypeOf([]ZOut1{}),
	reflect.TypeOf(ZEmbIfaceBeforeIn{}), reflect.TypeOf(ZEmbPtrBeforeIn{}), reflect.TypeOf(ZEmbIfaceBeforeOut{}), reflect.TypeOf(ZEmbPtrBeforeOut{}),
	reflect.TypeOf((*ZSrc)(nil)).Elem(), reflect.TypeOf((*ZSrc2)(nil)).Elem(), reflect.TypeOf(&V4{}), reflect.TypeOf(&V5{}),
	reflect.TypeOf(ZEmbIfaceBeforeIn{}), reflect.TypeOf(ZEmbIfaceBeforeOut{}),
	reflect.TypeOf(ZErrVal(0)), reflect.TypeOf(ZErrStruct{}), reflect.TypeOf(ZErrVal(0)), reflect.TypeOf(ZErrStruct{}),
	reflect.TypeOf(ZEmbLowerIn{}), reflect.TypeOf(ZEmbLowerOut{}), reflect.TypeOf(ZEmbLowerIn{}), reflect.TypeOf(ZEmbLowerOut{}),
	reflect.TypeOf(ZEmb10{}), reflect.TypeOf(ZEmb10In{}), reflect.TypeOf(ZEmb10Out{}), reflect.TypeOf(&ZEmb10{}),
}

var tagValues = map[string][]string{
	"name":              {"n1", "n2", "", "a<b", "q\"x", "a`b", "g1", "name with space", "日本"},
	"optional":          {"true", "false", "1", "0", "t", "maybe", "", "TRUE", "yes"},
	"group":             {"g1", "g2", "g1,flatten", "g1,soft", "g1,flatten,soft", "g1,bogus", ",flatten", ",", "", "g<3>", "g1,", "a`b", "n1"},
	"ignore-unexported": {"true", "false", "maybe", ""},
}

type ggen struct {
	r      *rand.Rand
	depth  int
	notes  []string
	hugeOK bool
}

func (g *ggen) tag() reflect.StructTag {
	if g.r.Intn(3) == 0 {
		return ""
	}
	var parts []string
	keys := []string{"name", "optional", "group", "ignore-unexported"}
	n := 1 + g.r.Intn(2)
	if g.r.Intn(6) == 0 {
		n = 3
	}
	for i := 0; i < n; i++ {
		k := keys[g.r.Intn(len(keys))]
		vs := tagValues[k]
		v := vs[g.r.Intn(len(vs))]
		switch g.r.Intn(12) {
		case 0:
			parts = append(parts, k+":"+v) // malformed: no quotes
		case 1:
			parts = append(parts, k+`:"`+v) // malformed: unterminated
		default:
			parts = append(parts, fmt.Sprintf(`%s:%q`, k, v))
		}
	}
	return reflect.StructTag(strings.Join(parts, " "))
}

var baseTypes = []reflect.Type{
	reflect.TypeOf(0), reflect.TypeOf(""), reflect.TypeOf(true), reflect.TypeOf(1.5), errT,
	reflect.TypeOf((*interface{})(nil)).Elem(), reflect.TypeOf(struct{}{}), reflect.TypeOf(uintptr(0)),
	reflect.TypeOf((*fmt.Stringer)(nil)).Elem(),
}

func (g *ggen) typ() reflect.Type {
	g.depth++
	defer func() { g.depth-- }()
	x := g.r.Intn(100)
	if g.depth > 3 {
		x = g.r.Intn(40)
	}
	switch {
	case x < 25:
		return typeTab[g.r.Intn(nTypes)]
	case x < 34:
		return baseTypes[g.r.Intn(len(baseTypes))]
	case x < 40:
		return zooTypes[g.r.Intn(len(zooTypes))]
	case x < 48:
		return reflect.PointerTo(g.typ())
	case x < 58:
		return reflect.SliceOf(g.typ())
	case x < 61:
		if g.hugeOK && g.r.Intn(6) == 0 {
			// enormous arrays of zero-size elements: legal types whose values cost nothing. Only among
			// the parameters of the top-level function, so that no such value is ever produced, cached
			// and printed element by element by String()
			elem := []reflect.Type{reflect.TypeOf(struct{}{}), reflect.TypeOf([0]int{}), reflect.TypeOf([0]*V0{})}[g.r.Intn(3)]
			// lengths around every place where length*size wraps: powers of two, three times a power of two
			// (the product wraps to a non-zero value), all-ones
			lens := []int{1 << 62, 1 << 40, 1<<31 + 1, 3 << 60, 5 << 59, 1<<63 - 1, 3 << 61, 1<<62 + 1}
			return reflect.ArrayOf(lens[g.r.Intn(len(lens))], elem)
		}
		return reflect.ArrayOf(g.r.Intn(3), g.typ())
	case x < 65:
		k := []reflect.Type{reflect.TypeOf(0), reflect.TypeOf(""), typeTab[0], typeTab[16]}[g.r.Intn(4)]
		return reflect.MapOf(k, g.typ())
	case x < 70:
		return reflect.ChanOf([]reflect.ChanDir{reflect.BothDir, reflect.RecvDir, reflect.SendDir}[g.r.Intn(3)], g.typ())
	case x < 75:
		return g.funcType(false)
	case x < 85:
		return g.structType("In")
	case x < 93:
		return g.structType("Out")
	default:
		return g.structType("")
	}
}

// structType builds a struct; embed is "In", "Out" or "" (plain).
func (g *ggen) structType(embed string) reflect.Type {
	var fields []reflect.StructField
	switch embed {
	case "In":
		f := reflect.StructField{Name: "In", Type: inT, Anonymous: true}
		if g.r.Intn(5) == 0 {
			f.Tag = reflect.StructTag(fmt.Sprintf(`ignore-unexported:%q`, tagValues["ignore-unexported"][g.r.Intn(4)]))
		}
		if g.r.Intn(12) == 0 {
			f.Type = reflect.PointerTo(inT)
		}
		fields = append(fields, f)
	case "Out":
		f := reflect.StructField{Name: "Out", Type: outT, Anonymous: true}
		if g.r.Intn(12) == 0 {
			f.Type = reflect.PointerTo(outT)
		}
		fields = append(fields, f)
	}
	if embed != "" && g.r.Intn(15) == 0 {
		// In and Out mixed
		other := reflect.StructField{Name: "Out", Type: outT, Anonymous: true}
		if embed == "Out" {
			other = reflect.StructField{Name: "In", Type: inT, Anonymous: true}
		}
		fields = append(fields, other)
	}
	n := g.r.Intn(5)
	for i := 0; i < n; i++ {
		f := reflect.StructField{Name: fmt.Sprintf("F%d", i), Type: g.typ(), Tag: g.tag()}
		if g.r.Intn(8) == 0 {
			f.Name = fmt.Sprintf("f%d", i)
			f.PkgPath = "digverif"
		}
		fields = append(fields, f)
	}
	if embed != "" && g.r.Intn(4) == 0 && len(fields) > 1 {
		// the sentinel not in first position
		j := 1 + g.r.Intn(len(fields)-1)
		fields[0], fields[j] = fields[j], fields[0]
	}
	var t reflect.Type
	func() {
		defer func() {
			if recover() != nil {
				t = reflect.TypeOf(struct{}{})
			}
		}()
		t = reflect.StructOf(fields)
	}()
	return t
}

func (g *ggen) funcType(top bool) reflect.Type {
	nIn, nOut := g.r.Intn(4), g.r.Intn(4)
	if top {
		nIn, nOut = g.r.Intn(6), g.r.Intn(5)
		if g.r.Intn(20) == 0 {
			nIn = 8 + g.r.Intn(5)
		}
	}
	var ins, outs []reflect.Type
	for i := 0; i < nIn; i++ {
		g.hugeOK = top
		ins = append(ins, g.typ())
		g.hugeOK = false
	}
	for i := 0; i < nOut; i++ {
		if x := g.r.Intn(10); x < 2 {
			outs = append(outs, errT)
		} else if x == 2 {
			// an error result of a concrete value type (its zero value is a non-nil error)
			outs = append(outs, []reflect.Type{reflect.TypeOf(ZErrVal(0)), reflect.TypeOf(ZErrStruct{}), reflect.TypeOf(&ZErr{})}[g.r.Intn(3)])
		} else {
			outs = append(outs, g.typ())
		}
	}
	variadic := false
	if g.r.Intn(5) == 0 {
		ins = append(ins, reflect.SliceOf(g.typ()))
		variadic = true
	}
	return reflect.FuncOf(ins, outs, variadic)
}

// probeFor builds func(In{...}) consuming every result key that fn's signature declares.
func probeFor(fn interface{}) interface{} {
	if fn == nil || reflect.TypeOf(fn).Kind() != reflect.Func {
		return func() {}
	}
	ft := reflect.TypeOf(fn)
	var fields []reflect.StructField
	add := func(t reflect.Type, tag reflect.StructTag) {
		f := reflect.StructField{Name: fmt.Sprintf("F%d", len(fields)), Type: t}
		if g := tag.Get("group"); g != "" {
			parts := strings.Split(g, ",")
			flat := false
			for _, p := range parts[1:] {
				if p == "flatten" {
					flat = true
				}
			}
			if flat && t.Kind() == reflect.Slice {
				t = t.Elem()
			}
			f.Type = reflect.SliceOf(t)
			f.Tag = reflect.StructTag(fmt.Sprintf(`group:%q`, parts[0]))
		} else {
			tags := `optional:"true"`
			if n := tag.Get("name"); n != "" && !strings.Contains(n, "`") {
				tags += fmt.Sprintf(` name:%q`, n)
			}
			f.Tag = reflect.StructTag(tags)
		}
		fields = append(fields, f)
	}
	var walk func(t reflect.Type, depth int)
	walk = func(t reflect.Type, depth int) {
		if t.Kind() == reflect.Struct && dig.IsOut(t) && depth < 4 {
			for i := 0; i < t.NumField(); i++ {
				f := t.Field(i)
				if f.Anonymous || f.PkgPath != "" {
					continue
				}
				if f.Type.Kind() == reflect.Struct && dig.IsOut(f.Type) {
					walk(f.Type, depth+1)
					continue
				}
				add(f.Type, f.Tag)
			}
			return
		}
		if t.Implements(errT) || dig.IsIn(t) {
			return
		}
		add(t, "")
	}
	for i := 0; i < ft.NumOut() && len(fields) < 12; i++ {
		walk(ft.Out(i), 0)
	}
	all := append([]reflect.StructField{{Name: "In", Type: inT, Anonymous: true}}, fields...)
	var st reflect.Type
	func() {
		defer func() {
			if recover() != nil {
				st = nil
			}
		}()
		st = reflect.StructOf(all)
	}()
	if st == nil {
		return func() {}
	}
	return reflect.MakeFunc(reflect.FuncOf([]reflect.Type{st}, nil, false), func([]reflect.Value) []reflect.Value { return nil }).Interface()
}

// Build returns the Go value passed as constructor / decorator / function.
func (s GarbageSpec) Build(w *World) interface{} {
	if s.ProbeOf > 0 && w != nil {
		return probeFor(w.h.Garbage[s.ProbeOf-1].Build(w))
	}
	g := &ggen{r: rand.New(rand.NewSource(s.Seed))}
	switch x := g.r.Intn(100); {
	case x < 3:
		return nil
	case x < 6:
		return 42
	case x < 8:
		return "a string"
	case x < 10:
		return struct{ A int }{1}
	case x < 12:
		return &V0{}
	case x < 14:
		return reflect.Zero(g.funcType(true)).Interface() // typed nil func
	case x < 16:
		f := func() V0 { return V0{} }
		return &f // pointer to a func
	case x < 18:
		return ZNamedFunc(nil)
	case x < 20:
		return []func(){func() {}}
	case x < 22:
		return ZNamedFunc(func() V0 { return V0{} })
	case x < 24:
		// self-referential values: printing them with %v never ends
		switch g.r.Intn(3) {
		case 0:
			s := []interface{}{1, nil}
			s[1] = s
			return s
		case 1:
			m := map[string]interface{}{}
			m["self"] = m
			return m
		default:
			type node struct {
				Name string
				Kids []interface{}
			}
			n := &node{Name: "n"}
			n.Kids = append(n.Kids, n.Kids, n)
			n.Kids[0] = n.Kids
			return n
		}
	}
	ft := g.funcType(true)
	return reflect.MakeFunc(ft, func(args []reflect.Value) []reflect.Value {
		outs := make([]reflect.Value, ft.NumOut())
		for i := range outs {
			outs[i] = reflect.Zero(ft.Out(i))
		}
		return outs
	}).Interface()
}

var optNames = []string{"n1", "", "a`b", "a<b", "n2", "q\"x"}
var optGroups = []string{"g1", "g1,flatten", "g1,soft", ",flatten", "", "a`b", "g1,bogus", "g<3>", ",", "g1,flatten,flatten"}

// ProvideOpts returns generated options (a second, independent stream of the same seed).
func (s GarbageSpec) ProvideOpts() []dig.ProvideOption {
	if s.ProbeOf > 0 {
		return nil
	}
	r := rand.New(rand.NewSource(s.Seed ^ 0x5eed))
	var opts []dig.ProvideOption
	if r.Intn(3) == 0 {
		opts = append(opts, dig.Name(optNames[r.Intn(len(optNames))]))
	}
	if r.Intn(3) == 0 {
		opts = append(opts, dig.Group(optGroups[r.Intn(len(optGroups))]))
	}
	if r.Intn(3) == 0 {
		cands := []interface{}{nil, 42, new(I0), new(I1), new(I3), new(V0), new(error), &struct{ A int }{}, new(interface{}), new(fmt.Stringer), (*I0)(nil), "x", new(*I0)}
		n := 1 + r.Intn(3)
		var as []interface{}
		for i := 0; i < n; i++ {
			as = append(as, cands[r.Intn(len(cands))])
		}
		if r.Intn(6) == 0 {
			as = nil
		}
		opts = append(opts, dig.As(as...))
	}
	if r.Intn(4) == 0 {
		opts = append(opts, dig.Export(r.Intn(2) == 0))
	}
	if r.Intn(6) == 0 {
		pcs := []uintptr{0, 1, 12345, ^uintptr(0), reflect.ValueOf(fmt.Sprint).Pointer()}
		var opt dig.ProvideOption
		func() {
			defer func() {
				if p := recover(); p != nil {
					garbageOptionPanic = fmt.Sprintf("LocationForPC panicked: %v", p)
				}
			}()
			opt = dig.LocationForPC(pcs[r.Intn(len(pcs))])
		}()
		if opt != nil {
			opts = append(opts, opt)
		}
	}
	if r.Intn(5) == 0 {
		if r.Intn(4) == 0 {
			opts = append(opts, dig.FillProvideInfo(nil))
		} else {
			opts = append(opts, dig.FillProvideInfo(&dig.ProvideInfo{}))
		}
	}
	if r.Intn(5) == 0 {
		cb := func(dig.CallbackInfo) {}
		// the option given once or twice, with and without a nil callback
		switch r.Intn(6) {
		case 0:
			opts = append(opts, dig.WithProviderCallback(nil))
		case 1:
			opts = append(opts, dig.WithProviderCallback(cb), dig.WithProviderCallback(nil))
		case 2:
			opts = append(opts, dig.WithProviderCallback(nil), dig.WithProviderCallback(cb))
		case 3:
			opts = append(opts, dig.WithProviderCallback(cb), dig.WithProviderCallback(cb))
		default:
			opts = append(opts, dig.WithProviderCallback(cb))
		}
	}
	return opts
}

// DecorateOpts: the options a garbage Decorate call is made with.
func (s GarbageSpec) DecorateOpts() []dig.DecorateOption {
	if s.ProbeOf > 0 {
		return nil
	}
	r := rand.New(rand.NewSource(s.Seed ^ 0x5eed0d))
	var opts []dig.DecorateOption
	if r.Intn(4) == 0 {
		if r.Intn(3) == 0 {
			opts = append(opts, dig.FillDecorateInfo(nil))
		} else {
			opts = append(opts, dig.FillDecorateInfo(&dig.DecorateInfo{}))
		}
	}
	if r.Intn(3) == 0 {
		cb := func(dig.CallbackInfo) {}
		switch r.Intn(6) {
		case 0:
			opts = append(opts, dig.WithDecoratorCallback(nil))
		case 1:
			opts = append(opts, dig.WithDecoratorCallback(cb), dig.WithDecoratorCallback(nil))
		case 2:
			opts = append(opts, dig.WithDecoratorCallback(nil), dig.WithDecoratorCallback(cb))
		case 3:
			opts = append(opts, dig.WithDecoratorCallback(cb), dig.WithDecoratorCallback(cb))
		default:
			opts = append(opts, dig.WithDecoratorCallback(cb))
		}
	}
	return opts
}

// garbageOptionPanic records a panic raised by a public option constructor itself.
var garbageOptionPanic string

func (s GarbageSpec) String() string {
	if s.ProbeOf > 0 {
		return fmt.Sprintf("probe consuming the results of garbage #%d", s.ProbeOf)
	}
	v := s.Build(nil)
	t := "nil"
	if v != nil {
		t = reflect.TypeOf(v).String()
	}
	if len(t) > 300 {
		t = t[:300] + "..."
	}
	return fmt.Sprintf("seed=%d %s opts=%v", s.Seed, t, s.ProvideOpts())
}

// genGarbageHistory: a valid background history with garbage calls applied at random points.
func genGarbageHistory(r *rand.Rand) *History {
	p := baseProfile()
	p.MinFns, p.MaxFns, p.MaxScopes, p.PInvalid, p.PFault, p.PVisualize = 1, 6, 3, 0.1, 0, 0.1
	p.Invokes = [2]int{1, 4}
	p.PCallback, p.PInfo = 0.1, 0.1
	h := genHistory(r, p)
	n := 1 + r.Intn(4)
	for i := 0; i < n; i++ {
		pos := r.Intn(len(h.Ops) + 1)
		// scopes that exist at pos
		scopes := 1
		for _, o := range h.Ops[:pos] {
			if o.Kind == OpScope {
				scopes++
			}
		}
		h.Garbage = append(h.Garbage, GarbageSpec{Seed: r.Int63()})
		kind := []string{OpProvide, OpProvide, OpProvide, OpDecorate, OpInvoke}[r.Intn(5)]
		op := Op{Kind: kind, Scope: r.Intn(scopes), Garbage: len(h.Garbage)}
		ins := []Op{op}
		if kind != OpInvoke {
			// resolve whatever an accepted garbage registration declared, from the same scope
			h.Garbage = append(h.Garbage, GarbageSpec{ProbeOf: op.Garbage})
			ins = append(ins, Op{Kind: OpInvoke, Scope: op.Scope, Garbage: len(h.Garbage)})
		}
		h.Ops = append(h.Ops[:pos:pos], append(ins, h.Ops[pos:]...)...)
		for j := range h.Ops {
			if h.Ops[j].VisErrOf > pos {
				h.Ops[j].VisErrOf += len(ins)
			}
		}
	}
	h.Ops = append(h.Ops, Op{Kind: OpVisualize}, Op{Kind: OpString})
	return h
}

func kindOfValue(v interface{}) string {
	if v == nil {
		return "nil"
	}
	t := reflect.TypeOf(v)
	if t.Kind() != reflect.Func {
		return "nonfunc:" + t.Kind().String()
	}
	if reflect.ValueOf(v).IsNil() {
		return "nilfunc"
	}
	s := "func"
	for i := 0; i < t.NumIn(); i++ {
		if dig.IsIn(t.In(i)) {
			s += "+In"
			break
		}
	}
	for i := 0; i < t.NumOut(); i++ {
		if dig.IsOut(t.Out(i)) {
			s += "+Out"
			break
		}
	}
	if t.IsVariadic() {
		s += "+variadic"
	}
	return s
}

func checkGarbage(c *Case, trace bool) *CaseResult {
	res := &CaseResult{Stats: map[string]int{}, Situ: map[string]int{}, Shape: shapeOf(c.H), Relevant: true}
	garbageOptionPanic = ""
	a := runPlain(c.H, trace)
	res.Log = a.log
	if garbageOptionPanic != "" {
		res.Viol = append(res.Viol, Violation{Props: []string{"C14"}, Rule: "C14.option-panic", Msg: garbageOptionPanic})
		return res
	}
	drop := map[int]bool{}
	for i, op := range c.H.Ops {
		rec := a.ops[i]
		if rec == nil {
			continue
		}
		if op.Garbage > 0 && c.H.Garbage[op.Garbage-1].ProbeOf > 0 {
			res.Stats["garbage.probes"]++
			res.Stats["garbage.probe."+rec.Verdict]++
		} else if op.Garbage > 0 {
			res.Stats["garbage.inputs"]++
			res.Stats["garbage."+rec.Verdict]++
			res.Situ[op.Kind+"/"+kindOfValue(c.H.Garbage[op.Garbage-1].Build(nil))+"/"+rec.Verdict]++
		}
		if rec.Panic != nil {
			what := op.Kind
			if op.Garbage > 0 {
				what += " of " + c.H.Garbage[op.Garbage-1].String()
			}
			res.Viol = append(res.Viol, Violation{Props: []string{"C14"}, Rule: "C14.panic", Op: i,
				Msg: fmt.Sprintf("op%d (%s) panicked: %v", i, what, rec.Panic)})
			return res
		}
		if len(rec.Execs) > 0 && op.Kind != OpInvoke {
			res.Viol = append(res.Viol, Violation{Props: []string{"C14", "C03"}, Rule: "C03.outside-invoke", Op: i,
				Msg: fmt.Sprintf("op%d (%s) executed user code", i, op.Kind)})
			return res
		}
		if isReg(op.Kind) && rec.Verdict != VOk {
			drop[i] = true
			if !isDigClass(rec.Err) {
				res.Viol = append(res.Viol, Violation{Props: []string{"C13"}, Rule: "C13.non-dig-rejection", Op: i,
					Msg: fmt.Sprintf("op%d rejected with an error whose root cause is not a dig.Error: %v", i, rec.Err)})
			}
		}
		if op.Kind == OpVisualize {
			res.Stats["dot.parsed"]++
			if _, err := ParseDot(rec.Dot); err != nil {
				res.Viol = append(res.Viol, Violation{Props: []string{"C19"}, Rule: "C19.invalid-dot", Op: i,
					Msg: fmt.Sprintf("Visualize output is not valid DOT: %v", err)})
			}
		}
	}
	if len(drop) == 0 {
		return res
	}
	t, mapping := removeOps(c.H, drop)
	b := runPlain(t, false)
	msg, at, n := compareSummaries(summarize(a), summarize(b), mapping, diffFlags{execs: true, info: true, dot: true, str: true}, c.H, t)
	res.Stats["diff.ops-compared"] += n
	res.Stats["diff.rejected-removed"] += len(drop)
	if msg != "" {
		res.Viol = append(res.Viol, Violation{Props: []string{"C14", "C06"}, Rule: "C14.rejected-input-left-trace", Op: at,
			Msg: "history differs from the same history without its rejected calls: " + msg})
	}
	return res
}
