package main

import (
	"digverif/vt"
	"fmt"
	"regexp"
	"sort"
	"strconv"
	"strings"
)

// C19 oracle: structural comparison of the parsed DOT with the spec state.

var groupIdxRe = regexp.MustCompile(`^(.*\[group=.*\])(\d+)$`)

// dotText: how a name or group reads as part of a DOT ID. dig writes IDs with Go's quoting; DOT's own
// unquoting only turns \" into " and leaves every other backslash sequence as it is, so that is what the ID is -
// consistently, as long as every occurrence of the ID is written the same way.
func dotText(s string) string {
	q := strconv.Quote(s)
	return strings.ReplaceAll(q[1:len(q)-1], `\"`, `"`)
}

func dotResultID(k Key) string {
	t := typeName[k.T]
	switch {
	case k.Name != "":
		return fmt.Sprintf("%v[name=%v]", t, dotText(k.Name))
	case k.Group != "":
		return fmt.Sprintf("%v[group=%v]", t, dotText(k.Group)) // index appended by dig
	}
	return t
}

func dotGroupID(k Key) string {
	return fmt.Sprintf("[type=%v group=%v]", typeName[k.T], dotText(k.Group))
}

func ctorDotName(f *Fn) string {
	if f.LocPC > 0 {
		return vt.LocNames[f.LocPC-1]
	}
	if f.Pool > 0 {
		return fmt.Sprintf("P%04d", f.Pool-1)
	}
	return "makeFuncStub"
}

// regResultIDs: one node per result and As-type (group ids without their index).
func regResultIDs(r *Reg) []string {
	var out []string
	for k, idxs := range r.prod {
		for range idxs {
			out = append(out, dotResultID(k))
		}
	}
	sort.Strings(out)
	return out
}

func regClusterSig(r *Reg) string {
	var params, groups []string
	for _, p := range r.F.Params {
		if p.K.Group != "" {
			groups = append(groups, dotGroupID(p.K))
			continue
		}
		d := ""
		if p.Optional {
			d = "|dashed"
		}
		params = append(params, dotResultID(p.K)+d)
	}
	sort.Strings(params)
	sort.Strings(groups)
	return fmt.Sprintf("name=%s results=%v params=%v groups=%v", ctorDotName(r.F), regResultIDs(r), params, groups)
}

type parsedCluster struct {
	idx     string
	name    string
	color   string
	results []string // ids as written
	params  []string // targets of the dependency edges (with "|dashed" when dashed), sorted
	groups  []string // value-group nodes it points at, sorted
	sig     string
}

type parsedDot struct {
	clusters   []*parsedCluster
	groupNodes map[string]map[string]string // id -> attrs
	groupEdges map[string][]string          // group id -> member ids
	colored    map[string][]string          // node id -> colors from trailing statements
}

func stripGroupIdx(id string) string {
	if m := groupIdxRe.FindStringSubmatch(id); m != nil {
		return m[1]
	}
	return id
}

func analyseDot(src string) (*parsedDot, error) {
	g, err := ParseDot(src)
	if err != nil {
		return nil, err
	}
	pd := &parsedDot{groupNodes: map[string]map[string]string{}, groupEdges: map[string][]string{}, colored: map[string][]string{}}
	byCtorNode := map[string]*parsedCluster{}
	for _, sub := range g.Subs {
		if !strings.HasPrefix(sub.Name, "cluster_") {
			return nil, fmt.Errorf("unexpected subgraph %q", sub.Name)
		}
		pc := &parsedCluster{idx: sub.Name[len("cluster_"):], color: sub.Attrs["color"]}
		for _, n := range sub.Nodes {
			if n.ID == "constructor_"+pc.idx {
				pc.name = n.Attrs["label"]
				continue
			}
			if _, ok := n.Attrs["label"]; !ok {
				return nil, fmt.Errorf("result node %q in %s has no label", n.ID, sub.Name)
			}
			pc.results = append(pc.results, n.ID)
		}
		if len(sub.Edges) > 0 || len(sub.Subs) > 0 {
			return nil, fmt.Errorf("cluster %s contains edges or subgraphs", sub.Name)
		}
		byCtorNode["constructor_"+pc.idx] = pc
		pd.clusters = append(pd.clusters, pc)
	}
	params := map[*parsedCluster][]string{}
	groups := map[*parsedCluster][]string{}
	for _, n := range g.Nodes {
		if n.Attrs["shape"] == "diamond" {
			pd.groupNodes[n.ID] = n.Attrs
			continue
		}
		if c, ok := n.Attrs["color"]; ok && len(n.Attrs) == 1 {
			pd.colored[n.ID] = append(pd.colored[n.ID], c)
			continue
		}
		return nil, fmt.Errorf("unexpected top-level node statement %q %v", n.ID, n.Attrs)
	}
	for _, e := range g.Edges {
		if pc, ok := byCtorNode[e.From]; ok {
			if e.Attrs["ltail"] != "cluster_"+pc.idx {
				return nil, fmt.Errorf("edge from %s lacks ltail of its cluster", e.From)
			}
			if strings.HasPrefix(e.To, "[type=") {
				groups[pc] = append(groups[pc], e.To)
			} else {
				d := ""
				if e.Attrs["style"] == "dashed" {
					d = "|dashed"
				}
				params[pc] = append(params[pc], e.To+d)
			}
			continue
		}
		if strings.HasPrefix(e.From, "[type=") {
			pd.groupEdges[e.From] = append(pd.groupEdges[e.From], e.To)
			continue
		}
		return nil, fmt.Errorf("edge from unknown node %q", e.From)
	}
	for _, pc := range pd.clusters {
		var rs []string
		for _, r := range pc.results {
			rs = append(rs, stripGroupIdx(r))
		}
		sort.Strings(rs)
		sort.Strings(params[pc])
		sort.Strings(groups[pc])
		pc.params, pc.groups = params[pc], groups[pc]
		pc.sig = fmt.Sprintf("name=%s results=%v params=%v groups=%v", pc.name, rs, params[pc], groups[pc])
	}
	return pd, nil
}

type invInfo struct {
	f        *Fn
	s        int
	verdict  string
	failedFn int // function whose own error/panic failed the Invoke (-1 none)
	selfFail bool
	hadDec   bool // a decorator is in the may-closure
	foreign  bool // a user function failed with an error/panic value wrapping ANOTHER container's dig error
	av       int
	cyc      bool
}

func (m *Monitor) checkDot(i int, op *Op, rec *OpRec, verr error) {
	m.stats["dot.parsed"]++
	pd, err := analyseDot(rec.Dot)
	if err != nil {
		m.violate("C19", "C19.invalid-dot", "Visualize output is not valid, well-structured DOT: %v", err)
		return
	}
	var info *invInfo
	if op.VisErrOf > 0 {
		info = m.invInfos[op.VisErrOf-1]
	}
	if info != nil && info.foreign && verr != nil {
		// the error chain carries visualisation data of a different container: what a picture of THIS
		// container should show for it is outside C19's claim (DESIGN 10); only well-formedness was checked
		m.stats["dot.foreign-error-excluded"]++
		return
	}
	plain := verr == nil || info == nil || info.selfFail
	if op.VisErrOf > 0 && info != nil {
		// CanVisualizeError
		want, judge := false, true
		switch {
		case verr == nil, info.selfFail:
			want = false
		case info.verdict == VCycle:
			judge = false
		case info.failedFn >= 0:
			// a constructor or decorator failed: the chain holds the failed value, decorators or not
			want = true
		case info.hadDec:
			judge = false
		case info.verdict == VDig && info.av == avNo:
			want = true
		default:
			judge = false
		}
		if judge {
			m.stats["dot.canvisualize-checked"]++
			if rec.VisOK != want {
				m.violate("C19", "C19.can-visualize", "CanVisualizeError = %v, want %v (error of op%d: %v)", rec.VisOK, want, op.VisErrOf-1, verr)
			}
		}
	}
	if plain {
		m.checkDotPlain(pd)
		return
	}
	m.checkDotFailure(pd, info, verr)
}

func (m *Monitor) checkDotPlain(pd *parsedDot) {
	m.stats["dot.plain-checked"]++
	var want, got []string
	for _, r := range m.regs {
		want = append(want, regClusterSig(r))
	}
	for _, pc := range pd.clusters {
		got = append(got, pc.sig)
		if pc.color != "" {
			m.violate("C19", "C19.unexpected-color", "cluster %s coloured %s without an error", pc.name, pc.color)
		}
	}
	sort.Strings(want)
	sort.Strings(got)
	if strings.Join(want, "\n") != strings.Join(got, "\n") {
		m.violate("C19,C06", "C19.clusters-mismatch", "clusters differ from the accepted constructors:\n got  %v\n want %v", got, want)
		return
	}
	if len(pd.colored) > 0 {
		m.violate("C19", "C19.unexpected-color", "failure colours %v without an error", pd.colored)
	}
	// groups: one node per group key produced or consumed; one edge per member; member ids distinct
	wantGroups := map[string]int{}
	for _, r := range m.regs {
		for k, idxs := range r.prod {
			if k.Group != "" {
				wantGroups[dotGroupID(k)] += len(idxs)
			}
		}
		for _, p := range r.F.Params {
			if p.K.Group != "" {
				wantGroups[dotGroupID(p.K)] += 0
			}
		}
	}
	for id, n := range wantGroups {
		if _, ok := pd.groupNodes[id]; !ok {
			m.violate("C19", "C19.group-node-missing", "no node for value group %s", id)
			return
		}
		members := pd.groupEdges[id]
		if len(members) != n {
			m.violate("C19", "C19.group-members", "group %s linked to %d members, want %d", id, len(members), n)
			return
		}
		seen := map[string]bool{}
		for _, mb := range members {
			if seen[mb] {
				m.violate("C19", "C19.group-members", "group %s linked twice to %s", id, mb)
			}
			seen[mb] = true
		}
		m.stats["dot.groups-checked"]++
	}
	for id := range pd.groupNodes {
		if _, ok := wantGroups[id]; !ok {
			m.violate("C19", "C19.group-node-extra", "node for unknown value group %s", id)
		}
	}
	// every member a group points at must be a result node of some cluster
	results := map[string]bool{}
	for _, pc := range pd.clusters {
		for _, r := range pc.results {
			if results[r] && groupIdxRe.MatchString(r) {
				m.violate("C19", "C19.group-members", "two result nodes share the id %s", r)
			}
			results[r] = true
		}
	}
	for id, members := range pd.groupEdges {
		for _, mb := range members {
			if !results[mb] {
				m.violate("C19", "C19.group-members", "group %s linked to %s which is no result node", id, mb)
			}
		}
	}
}

// demandEdges: registrations a function may ask for (any non-soft parameter), as seen from its scope, and
// whatever the decorators of those keys ask for, as seen from theirs (decorators are not drawn: their
// dependencies count as the consumer's).
func (m *Monitor) demandEdges(n node) []*Reg {
	return m.demandEdgesThrough(n, map[*Dec]bool{})
}

func (m *Monitor) demandEdgesThrough(n node, seen map[*Dec]bool) []*Reg {
	var out []*Reg
	self, _ := m.role[n.f.ID].(*Dec)
	for _, p := range n.f.Params {
		for _, d := range m.decsOf(n.s, p.K, self) {
			if !seen[d] {
				seen[d] = true
				out = append(out, m.demandEdgesThrough(node{f: d.F, s: d.S}, seen)...)
			}
		}
		if p.K.Group != "" {
			if !p.Soft {
				out = append(out, m.feeders(n.s, p.K)...)
			}
			continue
		}
		if r := m.nearest(n.s, p.K); r != nil {
			out = append(out, r)
		}
	}
	return out
}

func (m *Monitor) missingKeysOf(n node) []string {
	var out []string
	for _, p := range n.f.Params {
		if p.K.Group == "" && !p.Optional && m.nearest(n.s, p.K) == nil && len(m.decsOf(n.s, p.K, nil)) == 0 {
			out = append(out, dotResultID(p.K))
		}
	}
	return out
}

func (m *Monitor) checkDotFailure(pd *parsedDot, info *invInfo, verr error) {
	// Decorators are not drawn. A failing constructor below (or beside) a healthy decorator is judged, with the
	// decorators' own dependencies followed as if they were the consumer's (demandEdges); a failing decorator, and
	// a missing type with a decorator in the closure (whose missing dependency it may be), are outside the claim.
	if info.verdict == VCycle || (info.hadDec && info.failedFn < 0) {
		m.stats["dot.failure-excluded"]++
		return
	}
	if info.hadDec {
		m.stats["dot.failure-with-decorators"]++
	}
	// A cluster is matched to its registration by the function's name and the results it holds. Reflect-made
	// functions all share one name (and one ID, as registrations of the same function in several scopes do):
	// there the results alone have to tell the registrations apart, and a picture in which two candidates hold
	// the same results is not judged.
	cands := map[string][]*Reg{}
	for _, r := range m.regs {
		k := ctorDotName(r.F) + "|" + regClusterSigResults(r)
		cands[k] = append(cands[k], r)
	}
	byName := map[string]*Reg{}
	for _, pc := range pd.clusters {
		k := pc.name + "|" + resultsSig(pc)
		switch len(cands[k]) {
		case 1:
			byName[pc.name+"|"+pc.idx] = cands[k][0]
		case 0:
		default:
			m.stats["dot.failure-ambiguous-excluded"]++
			return
		}
	}
	var root *Reg
	if info.failedFn >= 0 {
		if r, ok := m.role[info.failedFn].(*Reg); ok {
			root = r
		} else {
			m.stats["dot.failure-excluded"]++
			return
		}
	} else if !(info.verdict == VDig && info.av == avNo) {
		m.stats["dot.failure-excluded"]++
		return
	}
	m.stats["dot.failure-checked"]++
	start := node{f: info.f, s: info.s}
	// clusters present: exactly red (root cause) and orange (transitive) ones
	var orange []*Reg
	var red []*Reg
	inPic := map[*Reg]bool{}
	for _, pc := range pd.clusters {
		r := byName[pc.name+"|"+pc.idx]
		if r == nil {
			m.violate("C19", "C19.failure-unknown-cluster", "cluster %q holding %v is no accepted constructor", pc.name, pc.results)
			return
		}
		if inPic[r] {
			m.violate("C19", "C19.failure-unknown-cluster", "two clusters %q holding %v for one accepted constructor", pc.name, pc.results)
			return
		}
		switch pc.color {
		case "red":
			red = append(red, r)
		case "orange":
			orange = append(orange, r)
		default:
			m.violate("C19", "C19.failure-not-pruned", "constructor %s did not fail but was not pruned (colour %q)", pc.name, pc.color)
			return
		}
		inPic[r] = true
	}
	var redNodes, orangeNodes []string
	for id, cs := range pd.colored {
		for _, c := range cs {
			if c == "red" {
				redNodes = append(redNodes, stripGroupIdx(id))
			} else if c == "orange" {
				orangeNodes = append(orangeNodes, stripGroupIdx(id))
			} else {
				m.violate("C19", "C19.failure-colour", "node %s has colour %s", id, c)
			}
		}
	}
	// reachability inside the picture
	reachFrom := func(first []*Reg) map[*Reg]bool {
		seen := map[*Reg]bool{}
		q := append([]*Reg(nil), first...)
		for len(q) > 0 {
			x := q[0]
			q = q[1:]
			if seen[x] || !inPic[x] {
				continue
			}
			seen[x] = true
			q = append(q, m.demandEdges(regNode(x))...)
		}
		return seen
	}
	fromInvoke := reachFrom(m.demandEdges(start))
	for r := range inPic {
		if !fromInvoke[r] {
			m.violate("C19", "C19.failure-path", "constructor %s is marked as failed but is not on a demand path from the invoked function", ctorDotName(r.F))
			return
		}
	}
	if root != nil {
		if len(red) != 1 || red[0] != root {
			var names []string
			for _, r := range red {
				names = append(names, ctorDotName(r.F))
			}
			m.violate("C19", "C19.failure-root-cause", "root cause (red) clusters %v, want exactly %s which returned the error", names, ctorDotName(root.F))
			return
		}
		for _, o := range orange {
			if !reachFrom([]*Reg{o})[root] {
				m.violate("C19", "C19.failure-path", "constructor %s is marked as a transitive failure but does not depend on the failing constructor %s", ctorDotName(o.F), ctorDotName(root.F))
				return
			}
		}
		want := map[string]bool{}
		for _, id := range regResultIDs(root) {
			want[id] = true
		}
		if len(redNodes) == 0 {
			m.violate("C19", "C19.failure-root-cause", "no result of the failing constructor %s is marked red", ctorDotName(root.F))
		}
		for _, id := range redNodes {
			if !want[id] {
				m.violate("C19", "C19.failure-root-cause", "red node %s is not a result of the failing constructor %s", id, ctorDotName(root.F))
			}
		}
	} else {
		if len(red) != 0 {
			m.violate("C19", "C19.failure-root-cause", "a missing type has no failing constructor, but %s is red", ctorDotName(red[0].F))
			return
		}
		// red nodes: missing keys of the invoked function or of one constructor in the picture
		cands := [][]string{m.missingKeysOf(start)}
		for r := range inPic {
			cands = append(cands, m.missingKeysOf(regNode(r)))
		}
		ok := false
		sort.Strings(redNodes)
		for _, c := range cands {
			sort.Strings(c)
			if len(c) > 0 && strings.Join(c, "\n") == strings.Join(redNodes, "\n") {
				ok = true
			}
		}
		if !ok {
			m.violate("C19", "C19.failure-root-cause", "red nodes %v are not the missing types of the invoked function or of a constructor on the path (candidates %v)", redNodes, cands)
		}
	}
	// dependency edges in the failure picture: pruning removes the edges to results of constructors that are
	// gone, nothing else. Every edge that is drawn is a declared dependency of its constructor (right style,
	// right multiplicity), and a declared dependency keeps its edge when the node it points at is still in the
	// picture (a result of a remaining constructor, or a red missing type) or when no accepted constructor of
	// any scope produces that key at all (nothing was pruned for it).
	drawn := map[string]bool{}
	for _, pc := range pd.clusters {
		for _, r := range pc.results {
			drawn[r] = true
		}
	}
	for _, id := range redNodes {
		drawn[id] = true
	}
	producedAnywhere := map[string]bool{}
	for _, r := range m.regs {
		for k := range r.prod {
			if k.Group == "" {
				producedAnywhere[dotResultID(k)] = true
			}
		}
	}
	for _, pc := range pd.clusters {
		r := byName[pc.name+"|"+pc.idx]
		declared := map[string]int{}
		declGroups := map[string]int{}
		var must []string
		for _, p := range r.F.Params {
			if p.K.Group != "" {
				declGroups[dotGroupID(p.K)]++
				continue
			}
			id := dotResultID(p.K)
			e := id
			if p.Optional {
				e += "|dashed"
			}
			declared[e]++
			if drawn[id] || !producedAnywhere[id] {
				must = append(must, e)
			}
		}
		got := map[string]int{}
		for _, e := range pc.params {
			got[e]++
			if got[e] > declared[e] {
				m.violate("C19", "C19.failure-edges", "failure picture: constructor %s has an edge to %s that is no declared dependency (declared %v)", pc.name, e, declared)
				return
			}
		}
		gotG := map[string]int{}
		for _, g := range pc.groups {
			gotG[g]++
			if gotG[g] > declGroups[g] {
				m.violate("C19", "C19.failure-edges", "failure picture: constructor %s has an edge to value group %s that it does not consume", pc.name, g)
				return
			}
		}
		need := map[string]int{}
		for _, e := range must {
			need[e]++
			if got[e] < need[e] {
				m.violate("C19", "C19.failure-edges", "failure picture: constructor %s lost its edge to %s although that node is still in the picture (edges drawn: %v)", pc.name, e, pc.params)
				return
			}
		}
		m.stats["dot.failure-edges-checked"]++
	}
	// value groups in the failure picture: a group node that is drawn is linked to exactly the grouped
	// results of the constructors that are still in the picture (members of pruned constructors go,
	// members of failed ones stay)
	wantMembers := map[string]int{}
	for r := range inPic {
		for k, idxs := range r.prod {
			if k.Group != "" {
				wantMembers[dotGroupID(k)] += len(idxs)
			}
		}
	}
	for id := range pd.groupNodes {
		if got := len(pd.groupEdges[id]); got != wantMembers[id] {
			m.violate("C19", "C19.failure-group-members", "failure picture: group %s linked to %d members, %d grouped results of failed constructors remain in the picture", id, got, wantMembers[id])
			return
		}
	}
	wantOrange := map[string]bool{}
	for _, o := range orange {
		for _, id := range regResultIDs(o) {
			wantOrange[id] = true
		}
	}
	// a key whose decorator could not run because something below it failed is orange as well, although its
	// constructor did not fail and is pruned
	for _, d := range m.decs {
		for k := range d.prod {
			wantOrange[dotResultID(k)] = true
		}
	}
	for _, id := range orangeNodes {
		if !wantOrange[id] {
			m.violate("C19", "C19.failure-path", "orange node %s is not a result of a transitively failed constructor", id)
		}
	}
}

func regClusterSigResults(r *Reg) string { return strings.Join(regResultIDs(r), ",") }
func resultsSig(pc *parsedCluster) string {
	var rs []string
	for _, r := range pc.results {
		rs = append(rs, stripGroupIdx(r))
	}
	sort.Strings(rs)
	return strings.Join(rs, ",")
}
