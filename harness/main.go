package main

import (
	"encoding/json"
	"flag"
	"fmt"
	"os"
	"sort"
)

func main() {
	if len(os.Args) < 2 {
		fmt.Fprintln(os.Stderr, "usage: digverif run|check|worker|replay ...")
		os.Exit(2)
	}
	switch os.Args[1] {
	case "run":
		cmdRun(os.Args[2:])
	case "check":
		cmdCheck(os.Args[2:])
	case "worker":
		cmdWorker(os.Args[2:])
	case "replay":
		cmdReplay(os.Args[2:])
	case "stress":
		cmdStress(os.Args[2:])
	case "genpool":
		cmdGenPool(os.Args[2:])
	default:
		fmt.Fprintln(os.Stderr, "unknown command")
		os.Exit(2)
	}
}

// cmdRun: in-process exploration (development aid).
func cmdRun(args []string) {
	fs := flag.NewFlagSet("run", flag.ExitOnError)
	n := fs.Int("n", 1000, "cases")
	seed := fs.Int64("seed", 1, "seed")
	prop := fs.String("prop", "C01", "property / profile")
	one := fs.Int("one", -1, "run only this case with trace")
	dumpJSON := fs.Bool("json", false, "with -one: print the history as JSON")
	fs.Parse(args)
	p := profileByName(*prop)
	rules := map[string]int{}
	first := map[string]int{}
	stats := map[string]int{}
	situ := map[string]int{}
	lo, hi := 0, *n
	if *one >= 0 {
		lo, hi = *one, *one+1
	}
	for i := lo; i < hi; i++ {
		h := genHistory(caseRand(*seed, "hist:"+*prop, i), p)
		w := newWorld(h, true, *one >= 0)
		w.Run()
		if *one >= 0 && *dumpJSON {
			b, _ := json.Marshal(h)
			fmt.Println(string(b))
		}
		if *one >= 0 {
			for _, l := range h.Describe() {
				fmt.Println(l)
			}
			fmt.Println("--- trace")
			for _, l := range w.log {
				fmt.Println(l)
			}
		}
		for k, v := range w.mon.stats {
			stats[k] += v
		}
		for k, v := range w.mon.situ {
			situ[k] += v
		}
		for _, v := range w.mon.viol {
			if rules[v.Rule] == 0 {
				first[v.Rule] = i
			}
			rules[v.Rule]++
			if *one >= 0 {
				fmt.Printf("VIOL %v %s: %s\n", v.Props, v.Rule, v.Msg)
			}
		}
	}
	for _, k := range sortedKeys(stats) {
		fmt.Printf("stat %-32s %d\n", k, stats[k])
	}
	fmt.Printf("situations: %d\n", len(situ))
	var rs []string
	for r := range rules {
		rs = append(rs, r)
	}
	sort.Strings(rs)
	for _, r := range rs {
		fmt.Printf("RULE %-36s fired in %6d histories; first case %d\n", r, rules[r], first[r])
	}
}
