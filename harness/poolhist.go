package main

import (
	"math/rand"
)

// genPoolHistory draws a history whose constructors and decorators are declared pool functions
// (distinct ids, locations and names); invoked functions stay dynamic.
func genPoolHistory(r *rand.Rand, p Profile) *History {
	loadPool()
	g := &gen{r: r, p: p, h: &History{}}
	h := g.h
	h.Opts.Defer = g.coin(p.PDefer)
	h.Opts.Recover = g.coin(p.PRecover)
	h.Opts.RandSeed = r.Int63n(1 << 30)
	h.Opts.OptOrder = r.Int63n(1 << 30)
	g.nScopes = 1
	if p.MaxScopes > 1 && g.coin(0.6) {
		g.nScopes = 1 + g.r.Intn(p.MaxScopes)
	}
	g.parent = []int{-1}
	for i := 1; i < g.nScopes; i++ {
		g.parent = append(g.parent, g.r.Intn(i))
	}
	nctor := poolCtors
	used := map[int]bool{}
	byKey := map[Key][]int{}
	for i := 0; i < nctor; i++ {
		for k := range prodKeys(poolSpecs[i], nil) {
			byKey[k] = append(byKey[k], i)
		}
	}
	clone := func(idx int) *Fn {
		src := poolSpecs[idx]
		f := &Fn{ID: len(h.Fns), Pool: idx + 1, HasErr: src.HasErr, Variadic: src.Variadic}
		f.Params = append([]Param(nil), src.Params...)
		f.Results = append([]Res(nil), src.Results...)
		f.PEnc, f.REnc = cloneEnc(src.PEnc), cloneEnc(src.REnc)
		h.Fns = append(h.Fns, f)
		return f
	}
	n := p.MinFns + g.r.Intn(p.MaxFns-p.MinFns+1)
	var wanted []Key
	var regOps []Op
	for len(regOps) < n {
		idx := -1
		if len(wanted) > 0 && g.coin(0.75) {
			k := wanted[g.r.Intn(len(wanted))]
			if c := byKey[k]; len(c) > 0 {
				idx = c[g.r.Intn(len(c))]
			}
		}
		if idx < 0 {
			idx = g.r.Intn(nctor)
		}
		if used[idx] {
			if g.coin(0.2) {
				break
			}
			continue
		}
		used[idx] = true
		f := clone(idx)
		s := g.r.Intn(g.nScopes)
		op := Op{Kind: OpProvide, Scope: s, Fn: f.ID, Export: g.coin(p.PExport), Callback: g.coin(p.PCallback), Info: g.coin(p.PInfo)}
		home := s
		if op.Export {
			home = 0
		}
		for k := range prodKeys(f, nil) {
			g.planned = append(g.planned, plannedKey{k: k, home: home, fn: len(regOps)})
		}
		for _, q := range f.Params {
			wanted = append(wanted, q.K)
		}
		if f.HasErr || g.coin(0.5) {
			g.addPoolFaults(f)
		}
		regOps = append(regOps, op)
	}
	// decorators from the pool
	nd := 0
	for i := 0; i < n; i++ {
		if g.coin(p.PDecorate) {
			nd++
		}
	}
	for i := 0; i < nd; i++ {
		idx := poolCtors + g.r.Intn(poolDecs)
		if used[idx] {
			continue
		}
		used[idx] = true
		f := clone(idx)
		g.addPoolFaults(f)
		regOps = append(regOps, Op{Kind: OpDecorate, Scope: g.r.Intn(g.nScopes), Fn: f.ID, Callback: g.coin(p.PCallback), Info: g.coin(p.PInfo)})
	}
	g.r.Shuffle(len(regOps), func(i, j int) { regOps[i], regOps[j] = regOps[j], regOps[i] })
	var invokes []Op
	mkInvoke := func() Op {
		if len(invokes) > 0 && g.coin(0.3) {
			return invokes[g.r.Intn(len(invokes))]
		}
		s := g.r.Intn(g.nScopes)
		f := g.newFn()
		f.Params = g.randParams(1+g.r.Intn(2), s, -1)
		if p.InvokeFaults && g.coin(p.PFault/2) {
			g.addFaults(f)
		}
		g.encodeParamsOnly(f)
		op := Op{Kind: OpInvoke, Scope: s, Fn: f.ID, Info: g.coin(p.PInfo)}
		invokes = append(invokes, op)
		return op
	}
	var seq []Op
	for _, op := range regOps {
		seq = append(seq, op)
		if g.coin(p.PMidInvoke) {
			seq = append(seq, mkInvoke())
			if g.coin(p.PVisualize) {
				seq = append(seq, Op{Kind: OpVisualize, VisErrOf: -1})
			}
		}
		if g.coin(p.PVisualize / 3) {
			seq = append(seq, Op{Kind: OpVisualize})
		}
	}
	ni := p.Invokes[0] + g.r.Intn(p.Invokes[1]-p.Invokes[0]+1)
	for i := 0; i < ni; i++ {
		seq = append(seq, mkInvoke())
		if g.coin(p.PVisualize) {
			seq = append(seq, Op{Kind: OpVisualize, VisErrOf: -1})
		}
	}
	if g.coin(p.PVisualize) {
		seq = append(seq, Op{Kind: OpVisualize})
	}
	// scopes
	created := make([]bool, g.nScopes)
	created[0] = true
	remap := make([]int, g.nScopes)
	next := 1
	var out []Op
	var ensure func(s int)
	ensure = func(s int) {
		if created[s] {
			return
		}
		ensure(g.parent[s])
		created[s] = true
		remap[s] = next
		next++
		out = append(out, Op{Kind: OpScope, Scope: remap[g.parent[s]]})
	}
	if !g.coin(p.PLateScope) {
		for s := 1; s < g.nScopes; s++ {
			ensure(s)
		}
	}
	for _, op := range seq {
		if op.Kind == OpVisualize {
			if op.VisErrOf == -1 {
				// error of the preceding op (an Invoke)
				op.VisErrOf = len(out)
			}
			out = append(out, op)
			continue
		}
		ensure(op.Scope)
		op.Scope = remap[op.Scope]
		out = append(out, op)
	}
	h.Ops = out
	return h
}

func (g *gen) addPoolFaults(f *Fn) {
	if !g.coin(g.p.PFault) {
		return
	}
	kind := "err"
	if !f.HasErr || g.coin(g.p.PPanic) {
		kind = "panic"
	}
	f.Faults = map[int]string{}
	switch g.r.Intn(4) {
	case 0:
		f.Faults[1] = kind
	case 1:
		f.Faults[1], f.Faults[2] = kind, kind
	case 2:
		f.Faults[2] = kind
	case 3:
		f.Faults[0] = kind
	}
}
