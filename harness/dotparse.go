package main

import (
	"encoding/xml"
	"fmt"
	"io"
	"strings"
	"unicode"
)

type dtok struct {
	kind string // id, qstr, html, punct, eof
	val  string
	pos  int
}

func dotLex(s string) ([]dtok, error) {
	var out []dtok
	i := 0
	for i < len(s) {
		c := s[i]
		switch {
		case c == ' ' || c == '\t' || c == '\n' || c == '\r':
			i++
		case c == '/' && i+1 < len(s) && s[i+1] == '/':
			for i < len(s) && s[i] != '\n' {
				i++
			}
		case c == '/' && i+1 < len(s) && s[i+1] == '*':
			j := strings.Index(s[i+2:], "*/")
			if j < 0 {
				return nil, fmt.Errorf("unterminated comment at %d", i)
			}
			i += j + 4
		case c == '"':
			j := i + 1
			var b strings.Builder
			for {
				if j >= len(s) {
					return nil, fmt.Errorf("unterminated string at %d", i)
				}
				if s[j] == '\\' && j+1 < len(s) {
					if s[j+1] == '"' {
						b.WriteByte('"')
					} else {
						b.WriteByte('\\')
						b.WriteByte(s[j+1])
					}
					j += 2
					continue
				}
				if s[j] == '"' {
					break
				}
				b.WriteByte(s[j])
				j++
			}
			out = append(out, dtok{"qstr", b.String(), i})
			i = j + 1
		case c == '<':
			depth, j := 0, i
			for {
				if j >= len(s) {
					return nil, fmt.Errorf("unbalanced HTML string at %d", i)
				}
				if s[j] == '<' {
					depth++
				} else if s[j] == '>' {
					depth--
					if depth == 0 {
						break
					}
				}
				j++
			}
			body := s[i+1 : j]
			if err := checkXML(body); err != nil {
				return nil, fmt.Errorf("HTML string at %d not well-formed XML: %v (%q)", i, err, body)
			}
			out = append(out, dtok{"html", body, i})
			i = j + 1
		case c == '-' && i+1 < len(s) && (s[i+1] == '>' || s[i+1] == '-'):
			out = append(out, dtok{"punct", s[i : i+2], i})
			i += 2
		case strings.ContainsRune("{}[];,=:", rune(c)):
			out = append(out, dtok{"punct", string(c), i})
			i++
		case c == '_' || unicode.IsLetter(rune(c)) || c >= 0x80:
			j := i
			for j < len(s) && (s[j] == '_' || unicode.IsLetter(rune(s[j])) || unicode.IsDigit(rune(s[j])) || s[j] >= 0x80) {
				j++
			}
			out = append(out, dtok{"id", s[i:j], i})
			i = j
		case c == '-' || c == '.' || unicode.IsDigit(rune(c)):
			j := i
			if s[j] == '-' {
				j++
			}
			st := j
			for j < len(s) && (unicode.IsDigit(rune(s[j])) || s[j] == '.') {
				j++
			}
			if j == st {
				return nil, fmt.Errorf("bad numeral at %d", i)
			}
			out = append(out, dtok{"id", s[i:j], i})
			i = j
		default:
			return nil, fmt.Errorf("unexpected character %q at %d", c, i)
		}
	}
	out = append(out, dtok{"eof", "", len(s)})
	return out, nil
}

func checkXML(body string) error {
	d := xml.NewDecoder(strings.NewReader("<r>" + body + "</r>"))
	d.Strict = true
	for {
		_, err := d.Token()
		if err == io.EOF {
			return nil
		}
		if err != nil {
			return err
		}
	}
}

type DotNode struct {
	ID    string
	Attrs map[string]string
}
type DotEdge struct {
	From, To string
	Attrs    map[string]string
}
type DotGraph struct {
	Name  string
	Attrs map[string]string
	Nodes []DotNode
	Edges []DotEdge
	Subs  []*DotGraph
}

type parser struct {
	t []dtok
	i int
}

func (p *parser) peek() dtok { return p.t[p.i] }
func (p *parser) next() dtok { t := p.t[p.i]; p.i++; return t }
func (p *parser) isP(v string) bool {
	return p.peek().kind == "punct" && p.peek().val == v
}
func (p *parser) expectP(v string) error {
	if !p.isP(v) {
		return fmt.Errorf("expected %q at %d, got %q", v, p.peek().pos, p.peek().val)
	}
	p.i++
	return nil
}
func (p *parser) isID() bool { k := p.peek().kind; return k == "id" || k == "qstr" || k == "html" }

func ParseDot(s string) (*DotGraph, error) {
	t, err := dotLex(s)
	if err != nil {
		return nil, err
	}
	p := &parser{t: t}
	if p.peek().kind == "id" && strings.EqualFold(p.peek().val, "strict") {
		p.next()
	}
	if p.peek().kind != "id" || !(strings.EqualFold(p.peek().val, "digraph") || strings.EqualFold(p.peek().val, "graph")) {
		return nil, fmt.Errorf("expected graph|digraph")
	}
	p.next()
	g := &DotGraph{Attrs: map[string]string{}}
	if p.isID() {
		g.Name = p.next().val
	}
	if err := p.body(g); err != nil {
		return nil, err
	}
	if p.peek().kind != "eof" {
		return nil, fmt.Errorf("trailing input at %d", p.peek().pos)
	}
	return g, nil
}

func (p *parser) body(g *DotGraph) error {
	if err := p.expectP("{"); err != nil {
		return err
	}
	for !p.isP("}") {
		if p.peek().kind == "eof" {
			return fmt.Errorf("unexpected eof")
		}
		if err := p.stmt(g); err != nil {
			return err
		}
		if p.isP(";") {
			p.next()
		}
	}
	p.next()
	return nil
}

func (p *parser) attrList() (map[string]string, error) {
	m := map[string]string{}
	for p.isP("[") {
		p.next()
		for !p.isP("]") {
			if !p.isID() {
				return nil, fmt.Errorf("expected attr name at %d", p.peek().pos)
			}
			k := p.next().val
			if err := p.expectP("="); err != nil {
				return nil, err
			}
			if !p.isID() {
				return nil, fmt.Errorf("expected attr value at %d", p.peek().pos)
			}
			m[k] = p.next().val
			if p.isP(";") || p.isP(",") {
				p.next()
			}
		}
		p.next()
	}
	return m, nil
}

func (p *parser) stmt(g *DotGraph) error {
	t := p.peek()
	if t.kind == "id" {
		switch strings.ToLower(t.val) {
		case "graph", "node", "edge":
			if p.t[p.i+1].kind == "punct" && p.t[p.i+1].val == "[" {
				p.next()
				a, err := p.attrList()
				if err != nil {
					return err
				}
				if strings.ToLower(t.val) == "graph" {
					for k, v := range a {
						g.Attrs[k] = v
					}
				}
				return nil
			}
		case "subgraph":
			p.next()
			sub := &DotGraph{Attrs: map[string]string{}}
			if p.isID() {
				sub.Name = p.next().val
			}
			g.Subs = append(g.Subs, sub)
			return p.body(sub)
		}
	}
	if p.isP("{") {
		sub := &DotGraph{Attrs: map[string]string{}}
		g.Subs = append(g.Subs, sub)
		return p.body(sub)
	}
	if !p.isID() {
		return fmt.Errorf("unexpected token %q at %d", t.val, t.pos)
	}
	id := p.next().val
	if p.isP("=") {
		p.next()
		if !p.isID() {
			return fmt.Errorf("expected value at %d", p.peek().pos)
		}
		g.Attrs[id] = p.next().val
		return nil
	}
	if p.isP("->") || p.isP("--") {
		from := id
		for p.isP("->") || p.isP("--") {
			p.next()
			if !p.isID() {
				return fmt.Errorf("expected edge target at %d", p.peek().pos)
			}
			to := p.next().val
			g.Edges = append(g.Edges, DotEdge{From: from, To: to})
			from = to
		}
		a, err := p.attrList()
		if err != nil {
			return err
		}
		g.Edges[len(g.Edges)-1].Attrs = a
		return nil
	}
	a, err := p.attrList()
	if err != nil {
		return err
	}
	g.Nodes = append(g.Nodes, DotNode{ID: id, Attrs: a})
	return nil
}
