package main

import (
	. "digverif/vt"
	"reflect"

	"go.uber.org/dig"
)

// Deliberately invalid inputs, each breaking one documented rule. The function
// is built from the (valid) spec f, mutated by the named cause, so that it
// mentions the same keys as a valid registration would.

var provideInvalidCauses = []string{
	"nonfunc", "nil", "typednil", "noresults", "onlyerror", "in-result", "out-param", "ptr-in-param",
	"ptr-out-result", "bad-optional", "bad-ignore-unexported", "name-and-group-tag", "name-and-group-opt",
	"backquote-name", "backquote-group", "as-nil", "as-nonptr", "as-ptr-struct", "as-unimplemented",
	"group-optional", "group-nonslice-param", "flatten-param", "soft-result-opt", "soft-result-tag",
	"flatten-nonslice-opt", "flatten-nonslice-tag", "bad-group-option", "unexported-in-field",
	"unexported-out-field", "embed-ptr-in", "embed-ptr-out", "error-in-out-field", "out-with-name-opt",
	"out-with-group-opt", "name-on-group-param", "group-optional-result", "empty-group-flatten", "flatten-as",
	"named-group-result-tag",
}

var decorateInvalidCauses = []string{
	"nonfunc", "nil", "typednil", "in-result", "out-param", "ptr-in-param", "ptr-out-result", "bad-optional",
	"group-single-value", "unexported-in-field", "group-optional", "flatten-param", "embed-ptr-in",
	"decorate-flatten-group", "group-nonslice-param", "name-on-group-param", "bad-ignore-unexported",
}

var invokeInvalidCauses = []string{
	"nonfunc", "nil", "typednil", "out-param", "ptr-in-param", "bad-optional", "unexported-in-field",
	"group-optional", "flatten-param", "group-nonslice-param", "embed-ptr-in", "bad-ignore-unexported", "name-on-group-param",
}

// S0 is a named slice type with a method, implementing I0.
type S0 []V0

func (S0) M0() {}

func inStruct(fields ...reflect.StructField) reflect.Type {
	return reflect.StructOf(append([]reflect.StructField{{Name: "In", Type: inT, Anonymous: true}}, fields...))
}
func outStruct(fields ...reflect.StructField) reflect.Type {
	return reflect.StructOf(append([]reflect.StructField{{Name: "Out", Type: outT, Anonymous: true}}, fields...))
}

func zeroFunc(ins, outs []reflect.Type) interface{} {
	return reflect.MakeFunc(reflect.FuncOf(ins, outs, false), func(args []reflect.Value) []reflect.Value {
		res := make([]reflect.Value, len(outs))
		for i, t := range outs {
			res[i] = reflect.Zero(t)
		}
		return res
	}).Interface()
}

// invalidAs wraps the As list according to the cause.
func invalidAs(cause string, as []interface{}) dig.ProvideOption {
	switch cause {
	case "as-nil":
		return dig.As(append(as, nil)...)
	case "as-nonptr":
		return dig.As(append(as, 42)...)
	case "as-ptr-struct":
		return dig.As(append(as, &V0{})...)
	}
	return dig.As(as...)
}

// buildInvalid returns the Go value for an op the generator marked invalid.
// The bodies never run (the monitor flags any execution of a rejected function
// because the function id is in no accepted registration).
func (w *World) buildInvalid(f *Fn, op *Op) interface{} {
	m := w.materialize(f, op.NameOpt != "" || op.GroupOpt != "")
	ins := append([]reflect.Type(nil), m.ins...)
	outs := append([]reflect.Type(nil), m.outs...)
	body := func(args []reflect.Value) []reflect.Value { return w.body(m, args) }
	mk := func(ins, outs []reflect.Type, extraIn, extraOut int) interface{} {
		// a function whose first len(m.ins) params / len(m.outs) results are the spec's,
		// wrapped so that if dig ever ran it the monitor would see the execution.
		return reflect.MakeFunc(reflect.FuncOf(ins, outs, false), func(args []reflect.Value) []reflect.Value {
			res := body(args[:len(args)-extraIn])
			for i := len(res); i < len(outs); i++ {
				res = append(res, reflect.Zero(outs[i]))
			}
			return res[:len(outs)]
		}).Interface()
	}
	v0 := typeTab[0]
	switch op.Invalid {
	case "as-nil", "as-nonptr", "as-ptr-struct", "as-unimplemented":
		// dig.As is documented as unsupported with result objects: use a positional result
		return zeroFunc(nil, []reflect.Type{v0})
	case "flatten-nonslice-opt":
		return zeroFunc(nil, []reflect.Type{v0})
	case "empty-group-flatten":
		return zeroFunc(nil, []reflect.Type{reflect.SliceOf(v0)})
	case "flatten-as":
		return zeroFunc(nil, []reflect.Type{reflect.TypeOf(S0{})})
	case "nonfunc":
		return 42
	case "nil":
		return nil
	case "typednil":
		return reflect.Zero(reflect.FuncOf(ins, outs, false)).Interface()
	case "noresults":
		return mk(ins, nil, 0, 0)
	case "onlyerror":
		return mk(ins, []reflect.Type{errT}, 0, 0)
	case "in-result":
		return mk(ins, append(outs, inStruct(reflect.StructField{Name: "A", Type: v0})), 0, 1)
	case "out-param":
		return mk(append(ins, outStruct(reflect.StructField{Name: "A", Type: v0})), outs, 1, 0)
	case "ptr-in-param":
		return mk(append(ins, reflect.PointerTo(inStruct(reflect.StructField{Name: "A", Type: v0}))), outs, 1, 0)
	case "ptr-out-result":
		return mk(ins, append(outs, reflect.PointerTo(outStruct(reflect.StructField{Name: "A", Type: v0}))), 0, 1)
	case "bad-optional":
		return mk(append(ins, inStruct(reflect.StructField{Name: "A", Type: v0, Tag: `optional:"maybe"`})), outs, 1, 0)
	case "bad-ignore-unexported":
		t := reflect.StructOf([]reflect.StructField{{Name: "In", Type: inT, Anonymous: true, Tag: `ignore-unexported:"maybe"`}, {Name: "A", Type: v0}})
		return mk(append(ins, t), outs, 1, 0)
	case "name-and-group-tag", "named-group-result-tag":
		return mk(ins, append(outs, outStruct(reflect.StructField{Name: "A", Type: v0, Tag: `name:"n1" group:"g1"`})), 0, 1)
	case "group-optional":
		return mk(append(ins, inStruct(reflect.StructField{Name: "A", Type: reflect.SliceOf(v0), Tag: `group:"g1" optional:"true"`})), outs, 1, 0)
	case "group-optional-result":
		return mk(ins, append(outs, outStruct(reflect.StructField{Name: "A", Type: v0, Tag: `group:"g1" optional:"true"`})), 0, 1)
	case "group-nonslice-param":
		return mk(append(ins, inStruct(reflect.StructField{Name: "A", Type: v0, Tag: `group:"g1"`})), outs, 1, 0)
	case "flatten-param":
		return mk(append(ins, inStruct(reflect.StructField{Name: "A", Type: reflect.SliceOf(v0), Tag: `group:"g1,flatten"`})), outs, 1, 0)
	case "name-on-group-param":
		return mk(append(ins, inStruct(reflect.StructField{Name: "A", Type: reflect.SliceOf(v0), Tag: `group:"g1" name:"n1"`})), outs, 1, 0)
	case "soft-result-tag":
		return mk(ins, append(outs, outStruct(reflect.StructField{Name: "A", Type: v0, Tag: `group:"g1,soft"`})), 0, 1)
	case "flatten-nonslice-tag":
		return mk(ins, append(outs, outStruct(reflect.StructField{Name: "A", Type: v0, Tag: `group:"g1,flatten"`})), 0, 1)
	case "bad-group-option":
		return mk(ins, append(outs, outStruct(reflect.StructField{Name: "A", Type: v0, Tag: `group:"g1,bogus"`})), 0, 1)
	case "unexported-in-field":
		t := reflect.StructOf([]reflect.StructField{{Name: "In", Type: inT, Anonymous: true}, {Name: "A", Type: v0}, {Name: "b", Type: v0, PkgPath: "digverif"}})
		return mk(append(ins, t), outs, 1, 0)
	case "unexported-out-field":
		t := reflect.StructOf([]reflect.StructField{{Name: "Out", Type: outT, Anonymous: true}, {Name: "A", Type: v0}, {Name: "b", Type: v0, PkgPath: "digverif"}})
		return mk(ins, append(outs, t), 0, 1)
	case "embed-ptr-in":
		t := reflect.StructOf([]reflect.StructField{{Name: "In", Type: reflect.PointerTo(inT), Anonymous: true}, {Name: "A", Type: v0}})
		return mk(append(ins, t), outs, 1, 0)
	case "embed-ptr-out":
		t := reflect.StructOf([]reflect.StructField{{Name: "Out", Type: reflect.PointerTo(outT), Anonymous: true}, {Name: "A", Type: v0}})
		return mk(ins, append(outs, t), 0, 1)
	case "error-in-out-field":
		return mk(ins, append(outs, outStruct(reflect.StructField{Name: "A", Type: v0}, reflect.StructField{Name: "E", Type: errT})), 0, 1)
	case "decorate-flatten-group":
		// flatten has no meaning for a decorator, which must return the whole group as []T
		return mk(ins, append(outs, outStruct(reflect.StructField{Name: "A", Type: reflect.SliceOf(reflect.SliceOf(v0)), Tag: `group:"g1,flatten"`})), 0, 1)
	case "group-single-value":
		// decorator returning a single (non-slice) value for a group
		return mk(ins, append(outs, outStruct(reflect.StructField{Name: "A", Type: v0, Tag: `group:"g1"`})), 0, 1)
	case "out-with-name-opt", "out-with-group-opt":
		return mk(ins, append(outs, outStruct(reflect.StructField{Name: "A", Type: v0})), 0, 1)
	}
	// causes carried by options only: the function itself is the valid one
	return m.val
}

// invalidOpts returns the extra Provide options an invalid cause needs.
func invalidOpts(cause string) []dig.ProvideOption {
	switch cause {
	case "name-and-group-opt":
		return []dig.ProvideOption{dig.Name("n1"), dig.Group("g1")}
	case "backquote-name":
		return []dig.ProvideOption{dig.Name("a`b")}
	case "backquote-group":
		return []dig.ProvideOption{dig.Group("a`b")}
	case "as-unimplemented":
		return []dig.ProvideOption{dig.As(new(interface{ NoSuchMethod() }))}
	case "soft-result-opt":
		return []dig.ProvideOption{dig.Group("g1,soft")}
	case "flatten-nonslice-opt":
		return []dig.ProvideOption{dig.Group("g1,flatten")}
	case "out-with-name-opt":
		return []dig.ProvideOption{dig.Name("n1")}
	case "out-with-group-opt":
		return []dig.ProvideOption{dig.Group("g1")}
	case "empty-group-flatten":
		return []dig.ProvideOption{dig.Group(",flatten")}
	case "flatten-as":
		return []dig.ProvideOption{dig.Group("g1,flatten"), dig.As(new(I0))}
	case "as-nil", "as-nonptr", "as-ptr-struct":
		return []dig.ProvideOption{invalidAs(cause, nil)}
	}
	return nil
}
