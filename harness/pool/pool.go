// Package pool holds declared top-level functions (generated, pool_gen.go) so that dig sees distinct
// function pointers, locations and names. Each function forwards to the handler the harness installed.
package pool

import "reflect"

// Funcs lists the declared functions; Handlers[i] is the current body of Funcs[i].
var (
	Funcs     []interface{}
	Handlers  []func([]reflect.Value) []reflect.Value
	SpecsJSON string
	NumCtors  int
)

// Dispatch forwards a call of declared function idx to its current handler.
func Dispatch(idx int, args []reflect.Value) []reflect.Value {
	return Handlers[idx](args)
}
