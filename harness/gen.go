package main

import (
	"math/rand"
)

// splitmix64-based deterministic seeding: case i of (seed, property) is reproducible on its own.
func mix(a uint64) uint64 {
	a += 0x9e3779b97f4a7c15
	a = (a ^ (a >> 30)) * 0xbf58476d1ce4e5b9
	a = (a ^ (a >> 27)) * 0x94d049bb133111eb
	return a ^ (a >> 31)
}

func caseRand(seed int64, prop string, idx int) *rand.Rand {
	h := mix(uint64(seed))
	for _, c := range prop {
		h = mix(h ^ uint64(c))
	}
	h = mix(h ^ uint64(idx))
	return rand.New(rand.NewSource(int64(h)))
}

// Profile re-weights the generator's dimensions.
type Profile struct {
	Name         string
	MaxScopes    int
	Types        []int
	Names        []string
	Groups       []string
	MinFns       int
	MaxFns       int
	PGroupRes    float64
	PFlatten     float64
	PGroupPar    float64
	PSoft        float64
	POptional    float64
	PNamed       float64
	PExport      float64
	PAs          float64
	PDecorate    float64 // decorators per constructor
	PGroupDec    float64
	PBackEdge    float64
	PGap         float64
	PFault       float64
	PPanic       float64
	PInvalid     float64
	PDup         float64
	PCallback    float64
	PInfo        float64
	PLocPC       float64 // a constructor is provided with LocationForPC
	GroupTypes   []int   // element types of value groups (default: the first two of Types)
	Twins        bool    // dig.As lists may name the two same-printing interface types
	Big          bool    // sizes beyond the usual: 8-16 results / parameters / flatten elements, deep scope chains
	PVisualize   float64
	PDefer       float64
	PRecover     float64
	PLateScope   float64
	PNested      float64
	PVariadic    float64
	PViaOpt      float64
	PMidInvoke   float64
	PReenter     float64
	PDigErr      float64 // share of error faults whose error wraps a foreign dig error
	PCbPanic     float64 // share of callbacks that panic the first time they fire
	PNamedSlice  float64 // share of group parameters / slice results declared with a named slice type
	Invokes      [2]int
	InvokeFaults bool
}

func baseProfile() Profile {
	return Profile{
		Name: "general", MaxScopes: 4, Types: []int{0, 1, 2, 3}, Names: []string{"", "", "n1"}, Groups: []string{"g1", "g2"},
		MinFns: 2, MaxFns: 9, PGroupRes: 0.22, PFlatten: 0.3, PGroupPar: 0.2, PSoft: 0.3, POptional: 0.2, PNamed: 0.3,
		PExport: 0.2, PAs: 0.08, PDecorate: 0.25, PGroupDec: 0.3, PBackEdge: 0.08, PGap: 0.08, PFault: 0, PPanic: 0.3,
		PInvalid: 0.05, PDup: 0.05, PCallback: 0.15, PInfo: 0.1, PVisualize: 0.05, PDefer: 0.2, PRecover: 0.5,
		PLateScope: 0.5, PNested: 0.3, PVariadic: 0.1, PViaOpt: 0.15, PMidInvoke: 0.25, Invokes: [2]int{2, 7}, PNamedSlice: 0.15,
	}
}

type gen struct {
	r       *rand.Rand
	p       Profile
	h       *History
	nScopes int
	noLay   bool
	parent  []int
	// planned keys: key -> home scopes where some constructor provides it
	planned []plannedKey
}

type plannedKey struct {
	k    Key
	home int
	fn   int // planning index of the producer
	flat bool
}

func (g *gen) coin(p float64) bool { return g.r.Float64() < p }
func (g *gen) pick(xs []int) int   { return xs[g.r.Intn(len(xs))] }

func (g *gen) sees(s, target int) bool {
	for ; s >= 0; s = g.parent[s] {
		if s == target {
			return true
		}
	}
	return false
}

func (g *gen) randSingleKey() Key {
	return Key{T: g.pick(g.p.Types), Name: g.p.Names[g.r.Intn(len(g.p.Names))]}
}

// randIface: an interface type for a dig.As list.
func (g *gen) randIface() int {
	if g.p.Twins && g.coin(0.4) {
		return tTwinA + g.r.Intn(2)
	}
	return tIfaceBase + g.r.Intn(4)
}

func (g *gen) randGroupKey() Key {
	ts := g.p.Types
	if len(ts) > 2 {
		ts = ts[:2]
	}
	if len(g.p.GroupTypes) > 0 {
		ts = g.p.GroupTypes
	}
	return Key{T: g.pick(ts), Group: g.p.Groups[g.r.Intn(len(g.p.Groups))]}
}

func (g *gen) newFn() *Fn {
	f := &Fn{ID: len(g.h.Fns)}
	g.h.Fns = append(g.h.Fns, f)
	return f
}

func (g *gen) randResults(n int, allowGroup bool) []Res {
	var rs []Res
	for tries := 0; len(rs) < n && tries < 20+2*n; tries++ {
		if allowGroup && g.coin(g.p.PGroupRes) {
			r := Res{K: g.randGroupKey()}
			if r.K.T == tSliceV && g.coin(0.5) {
				r.Nil = true
				rs = append(rs, r)
				continue
			}
			if r.K.T >= tPtrBase && r.K.T < tIfaceBase && g.coin(0.35) {
				// the same pointer returned for two grouped results: two members, not one
				rs = append(rs, r, Res{K: r.K, Twin: true})
				continue
			}
			if g.coin(g.p.PFlatten) {
				r.Flatten = true
				r.N = g.r.Intn(4)
				if g.p.Big && g.coin(0.3) {
					r.N = 8 + g.r.Intn(10)
				}
				r.Slice = g.randSlice()
			}
			rs = append(rs, r)
			continue
		}
		k := g.randSingleKey()
		dup := false
		for _, x := range rs {
			if x.K == k {
				dup = true
			}
		}
		if !dup || g.coin(g.p.PDup/2) {
			rs = append(rs, Res{K: k})
		}
	}
	return rs
}

// pickKey chooses a key for a parameter resolved from scope s by function with planning index idx.
func (g *gen) pickKey(s int, idx int, wantGroup bool) (Key, bool) {
	if g.coin(g.p.PGap) || len(g.planned) == 0 {
		if wantGroup {
			return g.randGroupKey(), true
		}
		return g.randSingleKey(), true
	}
	for tries := 0; tries < 8; tries++ {
		pk := g.planned[g.r.Intn(len(g.planned))]
		if (pk.k.Group != "") != wantGroup {
			continue
		}
		if idx >= 0 && pk.fn >= idx && !g.coin(g.p.PBackEdge) {
			continue
		}
		if !g.sees(s, pk.home) && tries < 6 {
			continue
		}
		return pk.k, true
	}
	return Key{}, false
}

func (g *gen) randParams(n int, s int, idx int) []Param {
	var ps []Param
	for i := 0; i < n; i++ {
		if g.coin(g.p.PGroupPar) {
			if k, ok := g.pickKey(s, idx, true); ok {
				ps = append(ps, Param{K: k, Soft: g.coin(g.p.PSoft), Slice: g.randSlice()})
				continue
			}
		}
		if k, ok := g.pickKey(s, idx, false); ok {
			ps = append(ps, Param{K: k, Optional: g.coin(g.p.POptional)})
		}
	}
	return ps
}

func (g *gen) addFaults(f *Fn) {
	if !g.coin(g.p.PFault) {
		if g.coin(0.2) {
			f.HasErr = true
		}
		return
	}
	kind := "err"
	if g.coin(g.p.PPanic) {
		kind = "panic"
		if g.coin(g.p.PDigErr) {
			kind = "panicdigerr"
		}
	} else {
		f.HasErr = true
		if g.coin(g.p.PDigErr) {
			kind = "digerr"
			if g.coin(0.25) {
				kind = "digcycerr"
			} else if g.coin(0.25) {
				kind = "rawdigerr"
			}
		}
	}
	f.Faults = map[int]string{}
	switch g.r.Intn(4) {
	case 0:
		f.Faults[1] = kind
	case 1:
		f.Faults[1], f.Faults[2] = kind, kind
	case 2:
		f.Faults[2] = kind
	case 3:
		f.Faults[0] = kind
	}
	if kind != "err" && kind != "digerr" && kind != "digcycerr" && kind != "rawdigerr" && g.coin(0.3) {
		f.HasErr = true
	}
}

// randEnc nests leaves 0..n-1 into objects. needObj[i]: leaf i needs tags and must be inside an object.
// randErrPos: constructors and decorators may return their error anywhere among their results.
func (g *gen) randErrPos(f *Fn) {
	if f.HasErr && !g.noLay && g.coin(0.2) {
		f.ErrPos = 1 + g.r.Intn(2)
	}
}

// randSlice: 0 (the unnamed []T) or a named slice type family for a group parameter/result.
func (g *gen) randSlice() int {
	if g.noLay || !g.coin(g.p.PNamedSlice) {
		return 0
	}
	return 1 + g.r.Intn(2)
}

// randLay draws a struct layout for an object (see Enc.Lay).
func (g *gen) randLay(in bool) int {
	if g.noLay {
		return 0 // the declared pool was generated with the default layout only
	}
	if !g.coin(0.3) {
		return 0
	}
	if in {
		return []int{1, 2, 3, 4, 5, 6, 7, 7, 8, 8}[g.r.Intn(10)]
	}
	return []int{1, 4, 5, 6}[g.r.Intn(4)]
}

func (g *gen) randEnc(n int, needObj []bool, maxDepth int, in bool) []Enc {
	if n == 0 {
		return nil
	}
	var build func(lo, hi, depth int, inside bool) []Enc
	build = func(lo, hi, depth int, inside bool) []Enc {
		var out []Enc
		i := lo
		for i < hi {
			// start an object spanning [i, j) ?
			if depth < maxDepth && (g.coin(0.35) || (!inside && needObj[i])) {
				j := i + 1 + g.r.Intn(hi-i)
				e := Enc{IsObj: true, Obj: build(i, j, depth+1, true), Lay: g.randLay(in)}
				if in && inside && !g.noLay && g.coin(0.2) {
					e.Junk = 1 + g.r.Intn(3)
				}
				out = append(out, e)
				i = j
				continue
			}
			if !inside && needObj[i] {
				out = append(out, Enc{IsObj: true, Obj: []Enc{{Leaf: i}}, Lay: g.randLay(in)})
			} else {
				out = append(out, Enc{Leaf: i})
			}
			i++
		}
		return out
	}
	return build(0, n, 0, false)
}

func (g *gen) encode(f *Fn, viaOpt bool) {
	if !g.coin(g.p.PNested) {
		// default derived encoding, but sometimes force objects for plain functions
		if g.coin(0.3) {
			if len(f.Params) > 0 {
				f.PEnc = defaultEnc(len(f.Params), true)
			}
		}
		if g.coin(0.3) && !viaOpt {
			if len(f.Results) > 0 {
				f.REnc = defaultEnc(len(f.Results), true)
			}
		}
		return
	}
	np := make([]bool, len(f.Params))
	for i, p := range f.Params {
		np[i] = p.K.Name != "" || p.Optional || p.K.Group != ""
	}
	f.PEnc = g.randEnc(len(f.Params), np, 4, true)
	if !viaOpt {
		nr := make([]bool, len(f.Results))
		for i, r := range f.Results {
			nr[i] = r.K.Name != "" || r.K.Group != "" || r.Whole
		}
		f.REnc = g.randEnc(len(f.Results), nr, 4, false)
	}
}

type plannedOp struct {
	op    Op
	scope int // scope that must exist
}

// genHistory draws one history for the profile.
func genHistory(r *rand.Rand, p Profile) *History {
	g := &gen{r: r, p: p, h: &History{}}
	h := g.h
	h.Opts.Defer = g.coin(p.PDefer)
	h.Opts.Recover = g.coin(p.PRecover)
	h.Opts.RandSeed = r.Int63n(1 << 30)
	h.Opts.OptOrder = r.Int63n(1 << 30)
	h.Opts.ReuseInfo = p.PInfo > 0 && g.coin(0.4)
	// scope tree
	g.nScopes = 1
	if p.MaxScopes > 1 && g.coin(0.75) {
		g.nScopes = 1 + g.r.Intn(p.MaxScopes)
	}
	g.parent = []int{-1}
	for i := 1; i < g.nScopes; i++ {
		if p.Big && g.coin(0.7) {
			g.parent = append(g.parent, i-1) // long chains
			continue
		}
		g.parent = append(g.parent, g.r.Intn(i))
	}
	// plan constructors
	n := p.MinFns + g.r.Intn(p.MaxFns-p.MinFns+1)
	type ctor struct {
		f  *Fn
		op Op
	}
	var ctors []ctor
	for i := 0; i < n; i++ {
		f := g.newFn()
		s := g.r.Intn(g.nScopes)
		op := Op{Kind: OpProvide, Scope: s, Fn: f.ID}
		if g.coin(p.PExport) {
			op.Export = true
		}
		home := s
		if op.Export {
			home = 0
		}
		nres := 1 + g.r.Intn(3)*g.r.Intn(2)
		if g.coin(0.08) {
			nres = 4 + g.r.Intn(2) // wide constructors: singles, named, group members and flatten results at once
		}
		if p.Big && g.coin(0.25) {
			nres = 8 + g.r.Intn(9)
		}
		f.Results = g.randResults(nres, true)
		if len(f.Results) == 0 {
			f.Results = []Res{{K: g.randSingleKey()}}
		}
		// option form: all results share one name or one group
		viaOpt := false
		if g.coin(p.PViaOpt) {
			r0 := f.Results[0]
			same := true
			for _, x := range f.Results {
				if x.K.Name != r0.K.Name || x.K.Group != r0.K.Group || x.Flatten != r0.Flatten {
					same = false
				}
			}
			// distinct types needed for singles
			if same && (r0.K.Name != "" || r0.K.Group != "") {
				viaOpt = true
				if r0.K.Group != "" {
					op.GroupOpt = r0.K.Group
					if r0.Flatten {
						op.GroupOpt += ",flatten"
					}
				} else {
					op.NameOpt = r0.K.Name
				}
			}
		}
		// As: positional, non-flatten results all implementing the interface
		if !viaOpt || true {
			if g.coin(p.PAs) {
				iface := g.randIface()
				ok := true
				for _, x := range f.Results {
					if x.Flatten || !implements(x.K.T, iface) {
						ok = false
					}
					// dig.As "cannot be provided for constructors which produce result objects":
					// names and groups must then come from options
					// (group-tagged fields of a result object ignore As; name tags are fine: As is
					// forwarded to every non-group field of a result object)
					if !viaOpt && x.K.Group != "" {
						ok = false
					}
				}
				if ok {
					op.As = []int{iface}
					if len(f.Results) == 1 && isIface(f.Results[0].K.T) && g.coin(0.5) {
						// the result's own (interface) type listed together with another interface
						op.As = []int{f.Results[0].K.T}
						if iface != f.Results[0].K.T {
							if g.coin(0.5) {
								op.As = append(op.As, iface)
							} else {
								op.As = []int{iface, f.Results[0].K.T}
							}
						}
					} else if g.coin(0.3) {
						i2 := g.randIface()
						ok2 := i2 != iface
						for _, x := range f.Results {
							if !implements(x.K.T, i2) {
								ok2 = false
							}
						}
						if ok2 {
							op.As = append(op.As, i2)
						}
					}
				}
			}
		}
		if len(op.As) > 0 && op.GroupOpt != "" && g.coin(0.25) {
			// the same interface listed twice for a grouped result, anywhere in the list: still one member
			op.As = append(op.As, op.As[g.r.Intn(len(op.As))])
			if g.coin(0.5) {
				if i3 := g.randIface(); implements(f.Results[0].K.T, i3) && len(f.Results) == 1 {
					op.As = append(op.As, i3)
				}
			}
			g.r.Shuffle(len(op.As), func(i, j int) { op.As[i], op.As[j] = op.As[j], op.As[i] })
		}
		for _, rs := range f.Results {
			for k := range prodKeys(&Fn{Results: []Res{rs}}, op.As) {
				g.planned = append(g.planned, plannedKey{k: k, home: home, fn: i, flat: rs.Flatten})
			}
		}
		op.Callback = g.coin(p.PCallback)
		op.CbPanic = op.Callback && g.coin(p.PCbPanic)
		op.Info = g.coin(p.PInfo)
		ctors = append(ctors, ctor{f: f, op: op})
	}
	// parameters (after all results are planned)
	for i := range ctors {
		c := &ctors[i]
		npar := g.r.Intn(4)
		if g.coin(0.06) {
			npar = 5 + g.r.Intn(3)
		}
		if p.Big && g.coin(0.25) {
			npar = 8 + g.r.Intn(9)
		}
		c.f.Params = g.randParams(npar, c.op.Scope, i)
		c.f.Variadic = g.coin(p.PVariadic)
		g.addFaults(c.f)
		g.randErrPos(c.f)
		viaOpt := c.op.NameOpt != "" || c.op.GroupOpt != ""
		if len(c.op.As) > 0 && (viaOpt || g.coin(0.5)) {
			g.encodeParamsOnly(c.f)
		} else {
			g.encode(c.f, viaOpt)
		}
	}
	var regOps []Op
	for _, c := range ctors {
		if g.coin(p.PLocPC) {
			c.f.LocPC = 1 + g.r.Intn(4)
		}
		regOps = append(regOps, c.op)
	}
	// decorators
	nd := 0
	for i := 0; i < n; i++ {
		if g.coin(p.PDecorate) {
			nd++
		}
	}
	for i := 0; i < nd && len(g.planned) > 0; i++ {
		f := g.newFn()
		s := g.r.Intn(g.nScopes)
		op := Op{Kind: OpDecorate, Scope: s, Fn: f.ID}
		if g.coin(p.PGroupDec) {
			gk, ok := g.pickKey(s, -1, true)
			if !ok {
				gk = g.randGroupKey()
			}
			f.Results = []Res{{K: gk, Whole: true, N: g.r.Intn(4), Slice: g.randSlice()}}
			if g.coin(0.75) {
				f.Params = append(f.Params, Param{K: gk, Soft: g.coin(g.p.PSoft * 0.7), Slice: g.randSlice()})
			}
			if g.coin(0.3) {
				// a multi-key decorator: the group and a single value (it can be reached through either key)
				if k, ok := g.pickKey(s, -1, false); ok {
					f.Results = append(f.Results, Res{K: k})
					if g.coin(0.6) {
						f.Params = append(f.Params, Param{K: k})
					}
				}
			}
			if g.coin(g.p.PDup) {
				// the same group decorated twice by one function: rejected
				f.Results = append(f.Results, Res{K: gk, Whole: true, N: g.r.Intn(3), Slice: g.randSlice()})
			}
		} else {
			nk := 1
			if g.coin(0.3) {
				nk = 2
				if g.coin(0.25) {
					nk = 3
				}
			}
			for j := 0; j < nk; j++ {
				k, ok := g.pickKey(s, -1, false)
				if !ok {
					k = g.randSingleKey()
				}
				if j > 0 && g.coin(g.p.PDup) {
					// the decorator lists one of its own keys twice: rejected, and nothing of it may stay
					// behind for the keys listed before the repetition (C06, C12)
					k = f.Results[g.r.Intn(len(f.Results))].K
				}
				dup := false
				for _, x := range f.Results {
					if x.K == k {
						dup = true
					}
				}
				if dup && !g.coin(g.p.PDup*4) {
					continue
				}
				f.Results = append(f.Results, Res{K: k})
				if g.coin(0.75) {
					f.Params = append(f.Params, Param{K: k, Optional: g.coin(0.1)})
				}
			}
		}
		if g.coin(0.35) {
			f.Params = append(f.Params, g.randParams(1, s, -1)...)
		}
		g.addFaults(f)
		g.randErrPos(f)
		g.encode(f, false)
		op.Callback = g.coin(p.PCallback)
		op.CbPanic = op.Callback && g.coin(p.PCbPanic)
		op.Info = g.coin(p.PInfo)
		regOps = append(regOps, op)
	}
	if p.PReenter > 0 {
		for _, op := range regOps {
			f := h.Fns[op.Fn]
			if !g.coin(p.PReenter) {
				continue
			}
			nf := g.newFn()
			// ask for one of the function's own keys (re-entry into itself) or for something else
			if g.coin(0.6) && len(f.Results) > 0 {
				r := f.Results[g.r.Intn(len(f.Results))]
				nf.Params = []Param{{K: r.K}}
			} else {
				nf.Params = g.randParams(1+g.r.Intn(2), op.Scope, -1)
			}
			g.encodeParamsOnly(nf)
			f.Reenter = nf.ID + 1
			if g.coin(0.3) {
				// registration from inside user code: a fresh constructor for some key
				nf.Params = g.randParams(g.r.Intn(2), op.Scope, -1)
				nf.Results = g.randResults(1, true)
				if len(nf.Results) == 0 {
					nf.Results = []Res{{K: g.randSingleKey()}}
				}
				nf.PEnc, nf.REnc = nil, nil
				f.ReenterProvide = true
			}
		}
	}
	g.r.Shuffle(len(regOps), func(i, j int) { regOps[i], regOps[j] = regOps[j], regOps[i] })

	// invokes
	var invokes []Op
	mkInvoke := func() Op {
		if len(invokes) > 0 && g.coin(0.3) {
			return invokes[g.r.Intn(len(invokes))]
		}
		s := g.r.Intn(g.nScopes)
		f := g.newFn()
		f.Params = g.randParams(1+g.r.Intn(3), s, -1)
		if g.coin(0.06) {
			f.Params = nil // func() / func() error: nothing to resolve, still one call (none in a dry container)
		}
		if g.coin(0.2) {
			f.HasErr = true
		}
		if p.InvokeFaults && g.coin(p.PFault) {
			g.addFaults(f)
		}
		f.Variadic = g.coin(p.PVariadic)
		if !g.noLay && g.coin(0.08) {
			// an invoked function may return values besides its error: dig ignores them
			for j := 1 + g.r.Intn(2); j > 0; j-- {
				f.Results = append(f.Results, Res{K: Key{T: g.randSingleKey().T}})
			}
		}
		g.encodeParamsOnly(f)
		op := Op{Kind: OpInvoke, Scope: s, Fn: f.ID, Info: g.coin(p.PInfo)}
		invokes = append(invokes, op)
		return op
	}

	// assemble the op sequence
	var seq []Op
	extra := func() {
		if g.coin(p.PVisualize) {
			v := Op{Kind: OpVisualize}
			if g.coin(0.5) {
				v.VisErrOf = -1 // resolved below: the error of the latest Invoke
			}
			seq = append(seq, v)
		}
		if g.coin(p.PVisualize / 2) {
			seq = append(seq, Op{Kind: OpString})
		}
	}
	for _, op := range regOps {
		if g.coin(p.PInvalid) {
			seq = append(seq, g.invalidVariant(op))
		}
		seq = append(seq, op)
		if g.coin(p.PDup) && op.Kind == OpProvide {
			// a second constructor for one of the same keys, same scope: duplicate unless group
			src := h.Fns[op.Fn]
			f := g.newFn()
			f.Results = []Res{src.Results[g.r.Intn(len(src.Results))]}
			f.Params = g.randParams(g.r.Intn(2), op.Scope, -1)
			g.encode(f, false)
			seq = append(seq, Op{Kind: OpProvide, Scope: op.Scope, Fn: f.ID, Export: op.Export && g.coin(0.7)})
		}
		if g.coin(p.PMidInvoke) {
			seq = append(seq, mkInvoke())
		}
		extra()
	}
	ni := p.Invokes[0] + g.r.Intn(p.Invokes[1]-p.Invokes[0]+1)
	for i := 0; i < ni; i++ {
		seq = append(seq, mkInvoke())
		extra()
		if g.coin(0.08) && len(regOps) > 0 {
			// a late registration after invokes: shadowing provider / late decorator
			f := g.newFn()
			s := g.r.Intn(g.nScopes)
			if g.coin(0.6) {
				f.Results = g.randResults(1, true)
				if len(f.Results) == 0 {
					f.Results = []Res{{K: g.randSingleKey()}}
				}
				f.Params = g.randParams(g.r.Intn(2), s, -1)
				g.encode(f, false)
				seq = append(seq, Op{Kind: OpProvide, Scope: s, Fn: f.ID, Export: g.coin(p.PExport)})
			} else if k, ok := g.pickKey(s, -1, false); ok {
				f.Results = []Res{{K: k}}
				f.Params = []Param{{K: k}}
				g.encode(f, false)
				seq = append(seq, Op{Kind: OpDecorate, Scope: s, Fn: f.ID})
			}
		}
	}
	// scope creations: early (all at the start) or late (just before first use)
	late := g.coin(p.PLateScope)
	created := make([]bool, g.nScopes)
	created[0] = true
	var out []Op
	// scope indexes in the history are creation-order indexes; remap
	remap := make([]int, g.nScopes)
	nextIdx := 1
	var ensure2 func(s int)
	ensure2 = func(s int) {
		if created[s] {
			return
		}
		ensure2(g.parent[s])
		created[s] = true
		remap[s] = nextIdx
		nextIdx++
		out = append(out, Op{Kind: OpScope, Scope: remap[g.parent[s]]})
	}
	if !late {
		for s := 1; s < g.nScopes; s++ {
			ensure2(s)
		}
	}
	for _, op := range seq {
		if op.Kind == OpVisualize || op.Kind == OpString {
			if op.VisErrOf == -1 {
				op.VisErrOf = 0
				// only when no registration lies in between: the picture is judged against the
				// container state in which the error arose
				for k := len(out) - 1; k >= 0; k-- {
					if out[k].Kind == OpInvoke {
						op.VisErrOf = k + 1
						break
					}
					if out[k].Kind == OpProvide || out[k].Kind == OpDecorate {
						break
					}
				}
			}
			out = append(out, op)
			continue
		}
		ensure2(op.Scope)
		if late && g.coin(0.3) {
			// create some other scope early-ish
			ensure2(g.r.Intn(g.nScopes))
		}
		op.Scope = remap[op.Scope]
		out = append(out, op)
	}
	h.Ops = out
	return h
}

func (g *gen) encodeParamsOnly(f *Fn) {
	re := f.REnc
	g.encode(f, true)
	f.REnc = re
}

// invalidVariant derives a deliberately invalid call mentioning the same keys as op.
func (g *gen) invalidVariant(op Op) Op {
	src := g.h.Fns[op.Fn]
	f := g.newFn()
	f.Params = append([]Param(nil), src.Params...)
	f.Results = append([]Res(nil), src.Results...)
	f.PEnc, f.REnc = cloneEnc(src.PEnc), cloneEnc(src.REnc)
	f.HasErr = src.HasErr
	n := Op{Kind: op.Kind, Scope: op.Scope, Fn: f.ID, Export: op.Export, NameOpt: op.NameOpt, GroupOpt: op.GroupOpt,
		Info: g.coin(0.5), Callback: g.coin(0.3)}
	var causes []string
	switch op.Kind {
	case OpProvide:
		causes = provideInvalidCauses
	case OpDecorate:
		causes = decorateInvalidCauses
	default:
		causes = invokeInvalidCauses
	}
	n.Invalid = causes[g.r.Intn(len(causes))]
	return n
}
