package main

import (
	. "digverif/vt"
	"fmt"
	"sort"
)

// Spec state: what the properties talk about, and the functions of DESIGN §5.

// Reg is an accepted Provide.
type Reg struct {
	F    *Fn
	Op   int
	O, H int           // origin scope, home scope (root when exported)
	prod map[Key][]int // produced key -> result indexes (groups: several)
	done bool
	toks map[int][]*Tok // result index -> tokens of the successful execution
	cb   bool
	as   []int
}

// Dec is an accepted Decorate.
type Dec struct {
	F    *Fn
	Op   int
	S    int
	prod map[Key][]int
	done bool
	toks map[int][]*Tok
	cb   bool
}

// prodKeys computes the keys each result of f is available under.
func prodKeys(f *Fn, as []int) map[Key][]int {
	m := map[Key][]int{}
	for i, r := range f.Results {
		// with As the value is available under exactly the listed interfaces (the result's own type
		// included when it is listed), each once
		var ts []int
		for _, a := range as {
			dup := false
			for _, x := range ts {
				if x == a {
					dup = true
				}
			}
			if !dup {
				ts = append(ts, a)
			}
		}
		if len(ts) == 0 {
			ts = []int{r.K.T}
		}
		for _, t := range ts {
			k := Key{T: t, Name: r.K.Name, Group: r.K.Group}
			m[k] = append(m[k], i)
		}
	}
	return m
}

type Model struct {
	parent []int
	regs   []*Reg
	decs   []*Dec
	deferV bool

	memo       map[memoKey]int
	reachCache map[*Dec]map[int]bool
	snap       map[int]bool // done flags by function id at the start of the current Invoke (nil: live state)
	pruneDone  bool
}

const (
	avNo      = 0
	avYes     = 1
	avUnknown = -1
)

func (m *Model) vis(s int) []int {
	var out []int
	for ; s >= 0; s = m.parent[s] {
		out = append(out, s)
	}
	return out
}

func (m *Model) sees(s, target int) bool {
	for ; s >= 0; s = m.parent[s] {
		if s == target {
			return true
		}
	}
	return false
}

func (m *Model) onPath(a, b int) bool { return m.sees(a, b) || m.sees(b, a) }

// nearest returns the registration providing single key k that is closest to s.
func (m *Model) nearest(s int, k Key) *Reg {
	for sc := s; sc >= 0; sc = m.parent[sc] {
		for _, r := range m.regs {
			if r.H == sc {
				if _, ok := r.prod[k]; ok {
					return r
				}
			}
		}
	}
	return nil
}

// feeders returns all registrations feeding group key k visible from s.
func (m *Model) feeders(s int, k Key) []*Reg {
	var out []*Reg
	for sc := s; sc >= 0; sc = m.parent[sc] {
		for _, r := range m.regs {
			if r.H == sc {
				if _, ok := r.prod[k]; ok {
					out = append(out, r)
				}
			}
		}
	}
	return out
}

// decsOf returns the decorations of k enclosing s, nearest first, without self.
func (m *Model) decsOf(s int, k Key, self *Dec) []*Dec {
	var out []*Dec
	for sc := s; sc >= 0; sc = m.parent[sc] {
		for _, d := range m.decs {
			if d.S == sc && d != self {
				if _, ok := d.prod[k]; ok {
					out = append(out, d)
				}
			}
		}
	}
	return out
}

func (m *Model) decOf(s int, k Key, self *Dec) *Dec {
	for sc := s; sc >= 0; sc = m.parent[sc] {
		for _, d := range m.decs {
			if d.S == sc && d != self {
				if _, ok := d.prod[k]; ok {
					return d
				}
			}
		}
	}
	return nil
}

// exclSet: decorators considered "being built" (dig skips a decorator that is on
// its own call stack), threaded through the recursions exactly as dig's recursion
// would set and reset that state.
type exclSet []*Dec

func (e exclSet) has(d *Dec) bool {
	for _, x := range e {
		if x == d {
			return true
		}
	}
	return false
}

func (e exclSet) with(d *Dec) exclSet {
	if e.has(d) {
		return e
	}
	out := make(exclSet, 0, len(e)+1)
	out = append(out, e...)
	return append(out, d)
}

func (e exclSet) with2(d *Dec) exclSet {
	if d == nil {
		return e
	}
	return e.with(d)
}

func (e exclSet) key() string {
	if len(e) == 0 {
		return ""
	}
	ids := make([]int, len(e))
	for i, d := range e {
		ids[i] = d.F.ID
	}
	sort.Ints(ids)
	return fmt.Sprint(ids)
}

func (m *Model) decsOfX(s int, k Key, excl exclSet) []*Dec {
	var out []*Dec
	for sc := s; sc >= 0; sc = m.parent[sc] {
		for _, d := range m.decs {
			if d.S == sc && !excl.has(d) {
				if _, ok := d.prod[k]; ok {
					out = append(out, d)
				}
			}
		}
	}
	return out
}

func (m *Model) decOfX(s int, k Key, excl exclSet) *Dec {
	for sc := s; sc >= 0; sc = m.parent[sc] {
		for _, d := range m.decs {
			if d.S == sc && !excl.has(d) {
				if _, ok := d.prod[k]; ok {
					return d
				}
			}
		}
	}
	return nil
}

// node is a function together with the scope its parameters are resolved from
// and the decorators that are on the stack while they are resolved.
type node struct {
	f    *Fn
	s    int
	self *Dec
	reg  *Reg
	excl exclSet
}

func regNode(r *Reg) node                { return node{f: r.F, s: r.O, reg: r} }
func decNode(d *Dec) node                { return node{f: d.F, s: d.S, self: d, excl: exclSet{d}} }
func regNodeX(r *Reg, excl exclSet) node { return node{f: r.F, s: r.O, reg: r, excl: excl} }
func decNodeX(d *Dec, excl exclSet) node {
	return node{f: d.F, s: d.S, self: d, excl: excl.with(d)}
}

// isDoneR / isDoneD consult the snapshot taken at the start of the current Invoke when one is active.
func (m *Model) isDoneR(r *Reg) bool {
	if m.snap != nil {
		return m.snap[r.F.ID]
	}
	return r.done
}
func (m *Model) isDoneD(d *Dec) bool {
	if m.snap != nil {
		return m.snap[d.F.ID]
	}
	return d.done
}

// may computes the over-approximation of what is allowed to run when the
// function n is invoked: ids of functions in the closure.
func (m *Model) may(start node) map[int]bool { return m.mayX(start, false) }

// mayInvoke: the closure of an Invoke as of its start. A single key whose nearest enclosing decorator
// has already run is delivered from that decoration: a built decorator is a leaf, neither outer
// decorators nor the provider may run on its account.
func (m *Model) mayInvoke(start node) map[int]bool {
	m.pruneDone = true
	defer func() { m.pruneDone = false }()
	return m.mayX(start, false)
}

// mayX: nested = computed for a "who may run under this decorator" question; then decorated
// groups conservatively keep their feeders (no further nesting).
func (m *Model) mayX(start node, nested bool) map[int]bool {
	seen := map[int]bool{}
	q := []node{start}
	for len(q) > 0 {
		n := q[0]
		q = q[1:]
		for _, p := range n.f.Params {
			// (single keys only: for a group dig calls every enclosing group decorator, outermost
			// first, whenever the group is requested)
			if m.pruneDone && !nested && p.K.Group == "" {
				if ds := m.decsOf(n.s, p.K, n.self); len(ds) > 0 && m.isDoneD(ds[0]) {
					continue
				}
			}
			for _, d := range m.decsOf(n.s, p.K, n.self) {
				if !seen[d.F.ID] {
					seen[d.F.ID] = true
					q = append(q, decNode(d))
				}
			}
			if p.K.Group != "" {
				if p.Soft {
					continue
				}
				// a decorated group is delivered from the decoration; the feeders are called for
				// this consumer only if the decorator is skipped because it is being built,
				// i.e. the consumer is itself needed by the decorator
				ds := m.decsOf(n.s, p.K, n.self)
				if len(ds) > 0 && !nested {
					under := false
					for _, d := range ds {
						if m.mayX(decNode(d), true)[n.f.ID] {
							under = true
						}
					}
					if !under {
						continue
					}
				}
				for _, r := range m.feeders(n.s, p.K) {
					if !seen[r.F.ID] {
						seen[r.F.ID] = true
						q = append(q, regNode(r))
					}
				}
				continue
			}
			if r := m.nearest(n.s, p.K); r != nil && !seen[r.F.ID] {
				seen[r.F.ID] = true
				q = append(q, regNode(r))
			}
		}
	}
	return seen
}

// must computes an under-approximation of what has to be done when an Invoke of
// start returns ok.
func (m *Model) must(start node) (regs []*Reg, decs []*Dec) {
	seenR := map[*Reg]bool{}
	seenD := map[*Dec]bool{}
	q := []node{start}
	var underUnbuiltDecorator func(n node) bool
	addR := func(r *Reg, excl exclSet) {
		if !seenR[r] {
			seenR[r] = true
			regs = append(regs, r)
			// r itself is required; what r needs depends on the context it is first built in
			// when it can also be reached through a decorator that is not built yet
			if !m.isDoneR(r) && !underUnbuiltDecorator(regNodeX(r, excl)) {
				q = append(q, regNodeX(r, excl))
			}
		}
	}
	addD := func(d *Dec, excl exclSet) {
		if !seenD[d] {
			seenD[d] = true
			decs = append(decs, d)
			if !m.isDoneD(d) && !underUnbuiltDecorator(decNodeX(d, excl)) {
				q = append(q, decNodeX(d, excl))
			}
		}
	}
	// a function that a not-yet-built decorator needs may be built while that decorator is on the
	// stack or not, depending on evaluation order: whether its optional dependencies are then
	// available is not decided by the spec state
	underUnbuiltDecorator = func(n node) bool {
		return len(m.unbuiltDecoratorsReaching(n)) > 0
	}
	for len(q) > 0 {
		n := q[0]
		q = q[1:]
		for _, p := range n.f.Params {
			if m.hidden(n, p.K) {
				continue
			}
			if p.K.Group != "" {
				ds := m.decsOfX(n.s, p.K, n.excl)
				for _, d := range ds {
					addD(d, n.excl)
				}
				if len(ds) > 0 || p.Soft {
					continue
				}
				for _, r := range m.feeders(n.s, p.K) {
					addR(r, n.excl)
				}
				continue
			}
			d := m.decOfX(n.s, p.K, n.excl)
			if d != nil {
				if !p.Optional {
					addD(d, n.excl)
				}
				continue
			}
			r := m.nearest(n.s, p.K)
			if r == nil {
				continue
			}
			if !p.Optional {
				addR(r, n.excl)
			} else if !underUnbuiltDecorator(n) && m.availRegX(r, n.excl) == avYes {
				addR(r, n.excl)
			}
		}
	}
	return
}

func (m *Model) resetMemo() {
	m.memo = map[memoKey]int{}
	m.reachCache = nil
}

type memoKey struct {
	r  *Reg
	d  *Dec
	ex string
}

func and3(a, b int) int {
	if a == avNo || b == avNo {
		return avNo
	}
	if a == avUnknown || b == avUnknown {
		return avUnknown
	}
	return avYes
}

// availParams: can all parameters of n be built in a fault-free world?
func (m *Model) availParams(n node) int {
	res := avYes
	for _, p := range n.f.Params {
		res = and3(res, m.availParam(n, p))
		if res == avNo {
			return avNo
		}
	}
	return res
}

// hidden reports whether an on-stack decorator other than the consumer itself
// would apply to this lookup: the outcome then depends on evaluation order
// (decorator-mediated cycle, DESIGN section 10.1).
func (m *Model) hidden(n node, k Key) bool {
	return len(m.decsOf(n.s, k, n.self)) != len(m.decsOfX(n.s, k, n.excl.with2(n.self)))
}

func (m *Model) availParam(n node, p Param) int {
	if m.hidden(n, p.K) {
		return avUnknown
	}
	if p.K.Group != "" {
		res := avYes
		ds := m.decsOfX(n.s, p.K, n.excl)
		for _, d := range ds {
			a := m.availDecX(d, n.excl)
			if a != avYes {
				if a == avNo {
					return avNo
				}
				res = avUnknown
			}
		}
		if len(ds) > 0 || p.Soft {
			return res
		}
		for _, r := range m.feeders(n.s, p.K) {
			res = and3(res, m.availRegX(r, n.excl))
			if res == avNo {
				return avNo
			}
		}
		return res
	}
	d := m.decOfX(n.s, p.K, n.excl)
	if d != nil {
		if p.Optional {
			return avUnknown
		}
		return m.availDecX(d, n.excl)
	}
	if p.Optional {
		return avYes
	}
	r := m.nearest(n.s, p.K)
	if r == nil {
		if len(m.decsOf(n.s, p.K, nil)) > 0 {
			// only a decoration (being built) stands for this key
			return avUnknown
		}
		return avNo
	}
	return m.availRegX(r, n.excl)
}

func (m *Model) availReg(r *Reg) int { return m.availRegX(r, nil) }

func (m *Model) availRegX(r *Reg, excl exclSet) int {
	if m.isDoneR(r) {
		return avYes
	}
	k := memoKey{r: r, ex: excl.key()}
	if v, ok := m.memo[k]; ok {
		return v
	}
	m.memo[k] = avUnknown
	v := m.availParams(regNodeX(r, excl))
	// r may instead be built first while a decorator that needs it is on the stack: if that
	// context gives a different answer the outcome depends on evaluation order
	if u := m.unbuiltDecoratorsReaching(regNodeX(r, excl)); len(u) > 0 && v != avUnknown {
		ex2 := excl
		for _, d := range u {
			ex2 = ex2.with(d)
		}
		if ex2.key() != excl.key() {
			k2 := memoKey{r: r, ex: ex2.key()}
			v2, ok := m.memo[k2]
			if !ok {
				m.memo[k2] = avUnknown
				v2 = m.availParams(regNodeX(r, ex2))
				m.memo[k2] = v2
			}
			if v2 != v {
				v = avUnknown
			}
		}
	}
	m.memo[k] = v
	return v
}

// unbuiltDecoratorsReaching: decorators that are not built, not already on the (modelled) stack,
// and transitively need n's function.
func (m *Model) unbuiltDecoratorsReaching(n node) []*Dec {
	var out []*Dec
	for _, d := range m.decs {
		if m.isDoneD(d) || d == n.self || n.excl.has(d) {
			continue
		}
		if m.reachCache == nil {
			m.reachCache = map[*Dec]map[int]bool{}
		}
		if m.reachCache[d] == nil {
			m.reachCache[d] = m.may(decNode(d))
		}
		if m.reachCache[d][n.f.ID] {
			out = append(out, d)
		}
	}
	return out
}

func (m *Model) availDecX(d *Dec, excl exclSet) int {
	if m.isDoneD(d) {
		return avYes
	}
	k := memoKey{d: d, ex: excl.key()}
	if v, ok := m.memo[k]; ok {
		return v
	}
	m.memo[k] = avUnknown
	v := m.availParams(decNodeX(d, excl))
	m.memo[k] = v
	return v
}

// gsEdges: strict edges of a registration: what resolution really traverses.
func (m *Model) gsEdges(r *Reg, includeOptional bool) []*Reg {
	var out []*Reg
	for _, p := range r.F.Params {
		if p.K.Group != "" {
			if p.Soft {
				continue
			}
			out = append(out, m.feeders(r.O, p.K)...)
			continue
		}
		if p.Optional && !includeOptional {
			continue
		}
		if x := m.nearest(r.O, p.K); x != nil {
			out = append(out, x)
		}
	}
	return out
}

// gsCycle searches a cycle in Gs reachable from start. skipDone: done
// registrations are leaves. Returns found and whether every member has O == H.
func (m *Model) gsCycle(start []*Reg, includeOptional, skipDone bool) (found, allOH bool) {
	state := map[*Reg]int{}
	var stack []*Reg
	var dfs func(r *Reg)
	dfs = func(r *Reg) {
		state[r] = 1
		stack = append(stack, r)
		if !(skipDone && r.done) {
			for _, n := range m.gsEdges(r, includeOptional) {
				if found {
					return
				}
				if state[n] == 1 {
					found, allOH = true, true
					for i := len(stack) - 1; i >= 0; i-- {
						if stack[i].O != stack[i].H {
							allOH = false
						}
						if stack[i] == n {
							break
						}
					}
					return
				}
				if state[n] == 0 {
					dfs(n)
				}
			}
		}
		if found {
			return
		}
		stack = stack[:len(stack)-1]
		state[r] = 2
	}
	for _, r := range start {
		if state[r] == 0 && !found {
			dfs(r)
		}
	}
	return
}

// mustCycleFrom: is a cycle made only of registrations reachable from start by
// must-edges (required singles, non-soft groups), substituting a not-done
// nearest decorator's parameters for the provider, stopping at done functions?
func (m *Model) mustCycleFrom(start node) bool {
	type nk struct {
		r    *Reg
		d    *Dec
		ex   string
		excl exclSet
	}
	type sk struct {
		r  *Reg
		d  *Dec
		ex string
	}
	state := map[sk]int{}
	key := func(k nk) sk { return sk{k.r, k.d, k.ex} }
	var stack []nk
	found := false
	succ := func(n node) []nk {
		var out []nk
		for _, p := range n.f.Params {
			if m.hidden(n, p.K) {
				continue
			}
			if p.K.Group != "" {
				ds := m.decsOfX(n.s, p.K, n.excl)
				for _, d := range ds {
					if !d.done {
						out = append(out, nk{d: d, ex: n.excl.key(), excl: n.excl})
					}
				}
				if len(ds) > 0 || p.Soft {
					continue
				}
				for _, r := range m.feeders(n.s, p.K) {
					if !r.done {
						out = append(out, nk{r: r, ex: n.excl.key(), excl: n.excl})
					}
				}
				continue
			}
			if p.Optional {
				continue
			}
			if d := m.decOfX(n.s, p.K, n.excl); d != nil {
				if !d.done {
					out = append(out, nk{d: d, ex: n.excl.key(), excl: n.excl})
				}
				continue
			}
			if r := m.nearest(n.s, p.K); r != nil && !r.done {
				out = append(out, nk{r: r, ex: n.excl.key(), excl: n.excl})
			}
		}
		return out
	}
	var dfs func(k nk)
	dfs = func(k nk) {
		state[key(k)] = 1
		stack = append(stack, k)
		var n node
		if k.r != nil {
			n = regNodeX(k.r, k.excl)
		} else {
			n = decNodeX(k.d, k.excl)
		}
		for _, x := range succ(n) {
			if found {
				return
			}
			if state[key(x)] == 1 {
				only := true
				for i := len(stack) - 1; i >= 0; i-- {
					if stack[i].d != nil {
						only = false
					}
					if key(stack[i]) == key(x) {
						break
					}
				}
				if only && x.d == nil {
					found = true
					return
				}
				continue
			}
			if state[key(x)] == 0 {
				dfs(x)
			}
		}
		if found {
			return
		}
		stack = stack[:len(stack)-1]
		state[key(k)] = 2
	}
	for _, x := range succ(start) {
		if state[key(x)] == 0 && !found {
			dfs(x)
		}
	}
	return found
}

// consumes reports whether function f has any parameter (any kind) for a key in prod.
func consumes(f *Fn, prod map[Key][]int) bool {
	for _, p := range f.Params {
		if _, ok := prod[p.K]; ok {
			return true
		}
	}
	return false
}

// gpCyclic: is the permissive graph cyclic? withDecs adds decorations as nodes.
func (m *Model) gpCyclic(withDecs bool) bool {
	nr := len(m.regs)
	n := nr
	if withDecs {
		n += len(m.decs)
	}
	adj := make([][]int, n)
	for i, c := range m.regs {
		for j, p := range m.regs {
			if consumes(c.F, p.prod) && (m.onPath(c.H, p.H) || m.sees(c.O, p.H)) {
				adj[i] = append(adj[i], j)
			}
		}
		if withDecs {
			for j, d := range m.decs {
				if consumes(c.F, d.prod) && (m.onPath(c.O, d.S) || m.onPath(c.H, d.S)) {
					adj[i] = append(adj[i], nr+j)
				}
			}
		}
	}
	if withDecs {
		for i, c := range m.decs {
			for j, p := range m.regs {
				if consumes(c.F, p.prod) && (m.onPath(c.S, p.H) || m.onPath(c.S, p.O)) {
					adj[nr+i] = append(adj[nr+i], j)
				}
			}
			for j, d := range m.decs {
				if i != j && consumes(c.F, d.prod) && m.onPath(c.S, d.S) {
					adj[nr+i] = append(adj[nr+i], nr+j)
				}
			}
		}
	}
	state := make([]int, n)
	var dfs func(int) bool
	dfs = func(u int) bool {
		state[u] = 1
		for _, v := range adj[u] {
			if state[v] == 1 || (state[v] == 0 && dfs(v)) {
				return true
			}
		}
		state[u] = 2
		return false
	}
	for i := 0; i < n; i++ {
		if state[i] == 0 && dfs(i) {
			return true
		}
	}
	return false
}

// noMissing: no required single key lacks a provider anywhere in the may-closure
// of start, and the model has no decorations at all.
func (m *Model) noMissing(start node) bool {
	if len(m.decs) > 0 {
		return false
	}
	seen := map[*Fn]bool{}
	q := []node{start}
	for len(q) > 0 {
		n := q[0]
		q = q[1:]
		if seen[n.f] {
			continue
		}
		seen[n.f] = true
		for _, p := range n.f.Params {
			if p.K.Group != "" {
				if !p.Soft {
					for _, r := range m.feeders(n.s, p.K) {
						q = append(q, regNode(r))
					}
				}
				continue
			}
			r := m.nearest(n.s, p.K)
			if r == nil {
				if !p.Optional {
					return false
				}
				continue
			}
			q = append(q, regNode(r))
		}
	}
	return true
}

// inMustOf: is feeder fd in the must-closure of the single parameter q resolved at scope s?
func (m *Model) inMustOf(q Param, s int, self *Dec, fd *Reg) bool {
	tmp := &Fn{ID: -1, Params: []Param{q}}
	var ex exclSet
	if self != nil {
		ex = exclSet{self}
	}
	regs, _ := m.must(node{f: tmp, s: s, self: self, excl: ex})
	for _, r := range regs {
		if r == fd {
			return true
		}
	}
	return false
}

// depth of the dependency closure below start (longest chain, cycles cut), for the stack bound.
func (m *Model) fnCount() int { return len(m.regs) + len(m.decs) }

// decoratorMediatedCycle: some decorator transitively needs a function that (from its own resolution
// scope) consumes a key this very decorator decorates. No assignment of values satisfies C12 for such a
// program, and what dig does with it depends on the evaluation order (DESIGN 10.1).
func (m *Model) decoratorMediatedCycle(role map[int]interface{}) bool {
	return len(m.decoratorsInMediatedCycle(role)) > 0
}

// decoratorsInMediatedCycle: the function ids of the decorators that lie on a decorator-mediated cycle.
func (m *Model) decoratorsInMediatedCycle(role map[int]interface{}) map[int]bool {
	out := map[int]bool{}
	for _, d := range m.decs {
		if m.decoratorInMediatedCycle(d, role) {
			out[d.F.ID] = true
		}
	}
	return out
}

func (m *Model) decoratorInMediatedCycle(d *Dec, role map[int]interface{}) bool {
	{
		for fid := range m.may(decNode(d)) {
			var n node
			switch x := role[fid].(type) {
			case *Reg:
				n = regNode(x)
			case *Dec:
				if x == d {
					continue
				}
				n = decNode(x)
			default:
				continue
			}
			for _, p := range n.f.Params {
				for _, d2 := range m.decsOf(n.s, p.K, n.self) {
					if d2 == d {
						return true
					}
				}
			}
		}
	}
	return false
}

// viewCycleThrough: cand lies on a cycle in the view of some single scope S below (or equal to) its home:
// the digraph over the registrations visible from S whose edges go from a constructor to the NEAREST
// provider, as seen from S, of each of its single parameters (optional ones included) and to every feeder
// visible from S of each of its group parameters (soft ones included). dig verifies, for a Provide, the graph of the
// home scope and of every descendant, and each of those graphs holds at least these edges (it links a
// constructor to ALL providers visible from the scope, not only the nearest): such a cycle must be
// rejected ("closes a cycle among constructors as seen from any single scope").
func (m *Model) viewCycleThrough(cand *Reg) bool {
	for S := range m.parent {
		if !m.sees(S, cand.H) {
			continue
		}
		edges := func(r *Reg) []*Reg {
			var out []*Reg
			for _, p := range r.F.Params {
				if p.K.Group != "" {
					// soft groups too: the property lists "value-group edges" without exception (a soft
					// edge never triggers a constructor, but the Provide-time verdict is about the graph)
					out = append(out, m.feeders(S, p.K)...)
					continue
				}
				if x := m.nearest(S, p.K); x != nil {
					out = append(out, x)
				}
			}
			return out
		}
		seen := map[*Reg]bool{}
		var dfs func(r *Reg) bool
		dfs = func(r *Reg) bool {
			for _, n := range edges(r) {
				if n == cand {
					return true
				}
				if !seen[n] {
					seen[n] = true
					if dfs(n) {
						return true
					}
				}
			}
			return false
		}
		if dfs(cand) {
			return true
		}
	}
	return false
}
