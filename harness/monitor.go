package main

import (
	. "digverif/vt"
	"errors"
	"fmt"
	"runtime"
	"sort"
	"strings"

	"go.uber.org/dig"
)

// Violation is one refuting observation.
type Violation struct {
	Props []string `json:"props"`
	Rule  string   `json:"rule"`
	Msg   string   `json:"msg"`
	Op    int      `json:"op"`
	// Class, when set by the rule itself, is the witness class (otherwise derived from the history's features).
	Class string `json:"vclass,omitempty"`
}

type pendingCall struct {
	dup, dupBoth bool
	mustCycle    bool
	mayCycle     bool
	reg          *Reg
	dec          *Dec
}

type invokeState struct {
	f           *Fn
	s           int
	may         map[int]bool
	mustR       []*Reg
	mustD       []*Dec
	av          int
	cycReq      bool
	cycAll      bool
	noMiss      bool
	doneAtStart map[int]bool
	failed      []*ExecRec
	panicked    []*ExecRec
	ranSelf     int
	onCycle     map[*Reg]bool
	cbPanicked  bool
}

// Monitor is the online trace checker.
type Monitor struct {
	w *World
	Model
	anyFailure bool // some user function returned an error or panicked earlier in this history
	// swallowedOps: ops in which an optional parameter got the zero value although a provider is registered
	swallowedOps map[int]bool
	// mayOf: per Invoke op, the functions that can take part in its resolution
	mayOf     map[int]map[int]bool
	role      map[int]interface{} // fn id -> *Reg | *Dec
	okExecs   map[int]int
	viol      []Violation
	seen      map[string]bool
	stats     map[string]int
	situ      map[string]int // resolution situations observed
	pend      *pendingCall
	inv       *invokeState
	cbPending map[int]*ExecRec
	invInfos  map[int]*invInfo
	// reentrant: a user function has called back into the container. The spec state does not model
	// nested resolution; from then on only the rules that need no model stay armed.
	reentrant  bool
	maxFrames  int
	checkDepth bool
	pcs        [8192]uintptr
}

func newMonitor(w *World) *Monitor {
	m := &Monitor{w: w, role: map[int]interface{}{}, okExecs: map[int]int{}, seen: map[string]bool{},
		stats: map[string]int{}, situ: map[string]int{}, cbPending: map[int]*ExecRec{}, invInfos: map[int]*invInfo{}}
	m.parent = []int{-1}
	m.deferV = w.h.Opts.Defer
	m.resetMemo()
	return m
}

var reentrantRules = map[string]bool{"C02.nested": true, "C02.twice": true, "C07.tainted": true, "C14.panic": true,
	"C03.outside-invoke": true, "C17.dry-executed": true}

// afterFailure: ",<prop>" once some user function has failed earlier in this history (rules that then
// also speak for the retry clauses of that property), "" otherwise.
func (m *Monitor) afterFailure(prop string) string {
	if m.anyFailure {
		return "," + prop
	}
	return ""
}

// violationSink, when set (worker processes), is told of every violation the moment it is detected.
var violationSink func(Violation)

func (m *Monitor) violate(props string, rule string, f string, a ...interface{}) {
	if m.seen[rule] {
		return
	}
	if m.reentrant && !reentrantRules[rule] {
		m.stats["reentrant.rule-suppressed"]++
		return
	}
	m.seen[rule] = true
	v := Violation{Props: strings.Split(props, ","), Rule: rule, Msg: fmt.Sprintf(f, a...), Op: m.w.curOp}
	m.viol = append(m.viol, v)
	if violationSink != nil {
		violationSink(v)
	}
	m.w.logf("  !! %s [%s]: %s", rule, props, v.Msg)
}

func (m *Monitor) onScope(parent int) { m.parent = append(m.parent, parent) }

func sameMultiset(a, b []*Tok) bool {
	if len(a) != len(b) {
		return false
	}
	c := map[*Tok]int{}
	for _, t := range a {
		c[t]++
	}
	for _, t := range b {
		c[t]--
		if c[t] < 0 {
			return false
		}
	}
	return true
}

func subset(a, b []*Tok) bool {
	c := map[*Tok]int{}
	for _, t := range b {
		c[t]++
	}
	for _, t := range a {
		c[t]--
		if c[t] < 0 {
			return false
		}
	}
	return true
}

func regToks(r *Reg, k Key) []*Tok {
	var out []*Tok
	for _, i := range r.prod[k] {
		out = append(out, r.toks[i]...)
	}
	return out
}

// resolve the role of the function being executed
func (m *Monitor) nodeOf(f *Fn) (node, bool) {
	switch x := m.role[f.ID].(type) {
	case *Reg:
		return regNode(x), true
	case *Dec:
		return decNode(x), true
	}
	if m.inv != nil && m.inv.f == f {
		return node{f: f, s: m.inv.s}, true
	}
	return node{}, false
}

func (m *Monitor) dist(s, target int) int {
	d := 0
	for ; s >= 0; s = m.parent[s] {
		if s == target {
			return d
		}
		d++
	}
	return -1
}

func (m *Monitor) onEnter(rec *ExecRec) {
	w := m.w
	f := w.h.Fns[rec.Fn]
	m.stats["enter"]++
	if w.h.Opts.Dry {
		m.violate("C17", "C17.dry-executed", "f%d executed in a DryRun container", f.ID)
		return
	}
	if len(m.cbPending) > 0 {
		for id := range m.cbPending {
			m.violate("C20", "C20.callback-missing", "f%d exited but f%d entered before its callback fired", id, f.ID)
		}
		m.cbPending = map[int]*ExecRec{}
	}
	if w.curKind != OpInvoke {
		m.violate("C03,C14", "C03.outside-invoke", "f%d entered during %s (op%d)", f.ID, w.curKind, w.curOp)
	}
	n, known := m.nodeOf(f)
	if !known {
		m.violate("C06,C01", "C06.rejected-function-executed", "f%d is in no accepted registration but was executed", f.ID)
		return
	}
	for _, o := range w.open {
		if o.Fn == f.ID {
			m.violate("C02,C05", "C02.nested", "f%d entered while it is already being built", f.ID)
		}
	}
	isInvoked := n.reg == nil && n.self == nil
	kind := "ctor"
	if n.self != nil {
		kind = "dec"
	}
	if isInvoked {
		kind = "inv"
		if m.inv != nil {
			m.inv.ranSelf++
			if m.inv.ranSelf > 1 {
				m.violate("C01", "C01.invoked-twice", "invoked function f%d called more than once", f.ID)
			}
		}
		if len(w.open) > 0 {
			m.violate("C03", "C03.invoked-inside", "invoked function entered while f%d is open", w.open[0].Fn)
		}
	} else {
		if m.okExecs[f.ID] > 0 {
			props := "C02"
			if m.anyFailure {
				// "results of other functions that did succeed remain cached" after a failure
				props += ",C07"
			}
			switch x := m.role[f.ID].(type) {
			case *Dec:
				props += ",C12" // a decorator runs at most once
			case *Reg:
				for k := range x.prod {
					if k.Group != "" {
						props += ",C10" // each feeder executed exactly once however often the group is requested
						break
					}
				}
			}
			m.violate(props, "C02.twice", "f%d executed again after a successful execution", f.ID)
		}
		if m.inv != nil && !m.inv.may[f.ID] {
			m.violate("C03,C11", "C03.not-in-closure", "f%d ran but is not in the dependency closure of the invoked function f%d (scope s%d)", f.ID, m.inv.f.ID, m.inv.s)
		}
		if m.inv != nil && n.reg != nil && m.inv.onCycle[n.reg] {
			m.violate("C05", "C05.cycle-member-ran", "f%d lies on a cycle of required dependencies but was executed", f.ID)
		}
	}
	if m.checkDepth {
		d := runtime.Callers(0, m.pcs[:])
		if d > m.maxFrames {
			m.maxFrames = d
		}
		if d > 60*(m.fnCount()+3) {
			m.violate("C05", "C05.depth", "call depth %d frames with %d registered functions", d, m.fnCount())
		}
	}
	for i, p := range f.Params {
		m.checkArg(f, n, kind, i, p, rec.Args[i])
	}
}

func (m *Monitor) inReach(d *Dec, fid int) bool {
	return m.may(decNode(d))[fid]
}

func (m *Monitor) checkArg(f *Fn, n node, kind string, i int, p Param, got []*Tok) {
	for _, t := range got {
		if t != nil && t.Tainted {
			props := "C07,C01"
			if p.K.Group != "" {
				if p.Soft {
					props += ",C11" // a soft group holds only members of constructors that were (successfully) executed
				} else {
					props += ",C10"
				}
			}
			m.violate(props, "C07.tainted", "f%d param %v received %v, minted by a failed execution", f.ID, p, t)
		}
	}
	S := n.s
	d := m.decOf(S, p.K, n.self)
	sit := kind + "/"
	if p.K.Group != "" {
		if d != nil {
			m.stats["arg.group.decorated"]++
			if !d.done {
				if m.inReach(d, f.ID) {
					m.stats["arg.excluded.dec-cycle"]++
					return
				}
				m.violate("C12,C03"+m.afterFailure("C07"), "C12.groupdec-not-done", "f%d param %v: enclosing group decorator f%d has not run", f.ID, p, d.F.ID)
				return
			}
			var want []*Tok
			for _, ri := range d.prod[p.K] {
				want = append(want, d.toks[ri]...)
			}
			m.situ[sit+"group-decorated/d"+fmt.Sprint(m.dist(S, d.S))]++
			if !sameMultiset(got, want) {
				m.violate("C12"+m.afterFailure("C07"), "C12.group-decorated-content", "f%d param %v: got %v want output of decorator f%d %v", f.ID, p, got, d.F.ID, want)
			}
			return
		}
		fs := m.feeders(S, p.K)
		if !p.Soft {
			m.stats["arg.group.hard"]++
			var want []*Tok
			for _, r := range fs {
				if !r.done {
					m.violate("C10,C03", "C10.feeder-not-done", "f%d param %v: visible feeder f%d has not run", f.ID, p, r.F.ID)
					return
				}
				want = append(want, regToks(r, p.K)...)
			}
			m.situ[fmt.Sprintf("%sgroup-hard/feeders%d", sit, min(len(fs), 4))]++
			if !sameMultiset(got, want) {
				m.violate("C10,C01,C08,C09", "C10.group-content", "f%d param %v: got %v want %v", f.ID, p, got, want)
			}
			return
		}
		m.stats["arg.group.soft"]++
		var upper, lower, lower2 []*Tok
		for _, r := range fs {
			if !r.done {
				continue
			}
			ts := regToks(r, p.K)
			upper = append(upper, ts...)
			if m.inv != nil && m.inv.doneAtStart[r.F.ID] {
				lower = append(lower, ts...)
			} else if m.paramInObject(f, i) && !m.underUnbuiltDecorator(f, n) {
				for j, q := range f.Params {
					if j == i || (q.K.Group != "" && q.Soft) || !m.sameObject(f, i, j) {
						continue
					}
					if m.inMustOfParam(q, S, n.self, r) {
						lower2 = append(lower2, ts...)
						break
					}
				}
			}
		}
		m.situ[sit+"group-soft"]++
		if !subset(got, upper) {
			m.violate("C11", "C11.soft-upper", "f%d soft param %v: got %v, not within members of executed feeders %v", f.ID, p, got, upper)
		}
		if !subset(lower, got) {
			m.violate("C11", "C11.soft-lower", "f%d soft param %v: got %v misses members of feeders executed before the Invoke %v", f.ID, p, got, lower)
		}
		if !subset(lower2, got) {
			m.violate("C11", "C11.soft-lower-sameobj", "f%d soft param %v: got %v misses members required by sibling fields %v", f.ID, p, got, lower2)
		}
		return
	}
	g := got[0]
	var want *Tok
	if d != nil {
		if !d.done {
			if m.inReach(d, f.ID) {
				m.stats["arg.excluded.dec-cycle"]++
				return
			}
			m.violate("C12,C01,C07,C03", "C12.dec-not-done", "f%d param %v: got %v although enclosing decorator f%d has not run", f.ID, p, g, d.F.ID)
			return
		}
		want = d.toks[d.prod[p.K][0]][0]
		m.stats["arg.decorated"]++
		nest := len(m.decsOf(S, p.K, n.self))
		m.situ[fmt.Sprintf("%ssingle-decorated/d%d/nest%d", sit, m.dist(S, d.S), min(nest, 3))]++
		if nest >= 2 {
			m.stats["arg.decorated.nested"]++
		}
		if g != want {
			m.violate("C12,C01"+m.afterFailure("C07"), "C12.wrong-decorated-value", "f%d param %v: got %v want %v (output of decorator f%d)", f.ID, p, g, want, d.F.ID)
		}
		return
	}
	r := m.nearest(S, p.K)
	if r == nil {
		if !p.Optional {
			m.violate("C04", "C04.called-with-missing", "f%d entered although required %v has no visible provider", f.ID, p)
		} else if g != nil {
			m.violate("C01,C09,C08", "C01.phantom", "f%d optional param %v: got %v but no provider is visible", f.ID, p, g)
		}
		m.stats["arg.nosrc"]++
		m.situ[sit+"single-nosource"]++
		return
	}
	if p.Optional && g == nil {
		// zero for an optional dependency that has a provider: legitimate only when the
		// provider was not built before this Invoke and is unavailable (fault-free) as of its start
		if m.inv != nil && m.inv.doneAtStart[r.F.ID] {
			m.violate("C01,C04,C02,C08", "C01.optional-zero-but-cached", "f%d optional param %v is zero although provider f%d had already run before this Invoke", f.ID, p, r.F.ID)
			return
		}
		onStackCandidates := 0
		for _, d := range m.decs {
			if m.inv != nil && !m.inv.doneAtStart[d.F.ID] && d != n.self && m.inReach(d, f.ID) {
				onStackCandidates++
			}
		}
		if onStackCandidates > 0 {
			m.stats["arg.excluded.optzero-under-decorator"]++
			return
		}
		if m.inv != nil {
			m.snap = m.inv.doneAtStart
		}
		m.resetMemo()
		a := m.availRegX(r, n.excl)
		m.snap = nil
		m.resetMemo()
		if a == avYes {
			m.violate("C04,C01,C08", "C04.optional-zero-but-avail", "f%d optional param %v is zero although provider f%d is available", f.ID, p, r.F.ID)
		}
		m.stats["arg.optzero.unavail"]++
		if m.swallowedOps == nil {
			m.swallowedOps = map[int]bool{}
		}
		m.swallowedOps[m.w.curOp] = true // a dependency failure behind an optional edge was swallowed in this op
		m.situ[sit+"single-optional-zero-unavail"]++
		return
	}
	if !r.done {
		m.violate("C01,C03,C07", "C01.not-done", "f%d param %v: got %v but provider f%d has not (successfully) run", f.ID, p, g, r.F.ID)
		return
	}
	want = r.toks[r.prod[p.K][0]][0]
	m.stats["arg.provided"]++
	x := ""
	if r.O != r.H {
		x = "/exported"
	}
	if len(r.as) > 0 {
		x += "/as"
	}
	o := ""
	if p.Optional {
		o = "/opt"
	}
	nm := ""
	if p.K.Name != "" {
		nm = "/named"
	}
	m.situ[fmt.Sprintf("%ssingle-provided/d%d%s%s%s", sit, m.dist(S, r.H), x, o, nm)]++
	if m.dist(S, r.H) > 0 || r.O != r.H {
		m.stats["arg.crossscope"]++
	}
	if p.K.Name != "" {
		m.stats["arg.named"]++
	}
	if len(r.as) > 0 {
		m.stats["arg.as"]++
	}
	if g != want {
		m.violate("C01,C08,C09,C02", "C01.wrong-value", "f%d param %v: got %v want %v (provider f%d)", f.ID, p, g, want, r.F.ID)
	}
}

// underUnbuiltDecorator: f may be running while a decorator that was not built when the Invoke
// started is on the stack (f is needed by that decorator): which values its lookups see then
// depends on evaluation order (DESIGN 10.1).
func (m *Monitor) underUnbuiltDecorator(f *Fn, n node) bool {
	for _, d := range m.decs {
		if d == n.self || (m.inv != nil && m.inv.doneAtStart[d.F.ID]) {
			continue
		}
		if m.inReach(d, f.ID) {
			return true
		}
	}
	return false
}

// paramInObject / sameObject: the soft lower bound speaks about fields of the same parameter object.
func (m *Monitor) encPaths(f *Fn) [][]int {
	if mt, ok := m.w.mats[f.ID*2]; ok {
		return mt.pPaths
	}
	if mt, ok := m.w.mats[f.ID*2+1]; ok {
		return mt.pPaths
	}
	return nil
}
func (m *Monitor) paramInObject(f *Fn, i int) bool {
	p := m.encPaths(f)
	return p != nil && len(p[i]) > 1
}
func (m *Monitor) sameObject(f *Fn, i, j int) bool {
	p := m.encPaths(f)
	// j lies in the parameter object that directly holds the soft field i, at the same level or
	// nested deeper: every non-soft field of that object, nested objects included, is built before
	// the object's own soft fields
	if p == nil || len(p[j]) < len(p[i]) || len(p[i]) < 2 {
		return false
	}
	for x := 0; x < len(p[i])-1; x++ {
		if p[i][x] != p[j][x] {
			return false
		}
	}
	return true
}
func (m *Monitor) inMustOfParam(q Param, s int, self *Dec, fd *Reg) bool {
	m.resetMemo()
	return m.inMustOf(q, s, self, fd)
}

func (m *Monitor) onExit(rec *ExecRec) {
	f := m.w.h.Fns[rec.Fn]
	if m.w.h.Opts.Dry {
		return
	}
	role := m.role[f.ID]
	hasCB := false
	switch x := role.(type) {
	case *Reg:
		hasCB = x.cb
	case *Dec:
		hasCB = x.cb
	}
	if hasCB {
		m.cbPending[f.ID] = rec
	}
	switch rec.Outcome {
	case "ok":
		m.stats["exit.ok"]++
		switch x := role.(type) {
		case *Reg:
			x.done, x.toks = true, rec.Toks
			m.okExecs[f.ID]++
		case *Dec:
			x.done, x.toks = true, rec.Toks
			m.okExecs[f.ID]++
		}
	case "err":
		m.stats["exit.err"]++
		m.anyFailure = true
		if m.inv != nil {
			m.inv.failed = append(m.inv.failed, rec)
		}
	case "panic":
		m.stats["exit.panic"]++
		m.anyFailure = true
		if m.inv != nil {
			m.inv.panicked = append(m.inv.panicked, rec)
		}
	}
}

// onNestedProvide: user code registered a constructor from inside an Invoke (re-entrant use). The verdict
// of that nested call is not judged; an accepted registration enters the spec state so that everything
// after the current operation is judged against it.
func (m *Monitor) onNestedProvide(f *Fn, s int, accepted bool) {
	m.stats["reentrant.nested-provide"]++
	if !accepted {
		return
	}
	reg := &Reg{F: f, Op: m.w.curOp, O: s, H: s}
	reg.prod = prodKeys(f, nil)
	m.regs = append(m.regs, reg)
	m.role[f.ID] = reg
}

// onCallbackPanic: a callback is about to panic. What Invoke then returns is outside every claim
// (callbacks are not among the failure sources of C13, DESIGN 10.9); the wiring, singleton and
// callback rules keep judging this and all later operations.
func (m *Monitor) onCallbackPanic(f *Fn) {
	m.stats["callback.panicked"]++
	if m.inv != nil {
		m.inv.cbPanicked = true
	}
}

func (m *Monitor) onCallback(f *Fn, ci dig.CallbackInfo) {
	m.stats["callback"]++
	if m.w.h.Opts.Dry {
		return
	}
	rec := m.cbPending[f.ID]
	if rec == nil {
		m.violate("C20,C06", "C20.callback-spurious", "callback of f%d fired without a preceding execution (op%d)", f.ID, m.w.curOp)
		return
	}
	delete(m.cbPending, f.ID)
	switch rec.Outcome {
	case "ok":
		if ci.Error != nil {
			m.violate("C20", "C20.callback-error", "f%d succeeded but callback Error = %v", f.ID, ci.Error)
		}
	case "err":
		if ci.Error == nil {
			m.violate("C20", "C20.callback-error", "f%d failed with %v but callback Error is nil", f.ID, rec.Err)
		} else if rec.Err.Raw {
			// the function returned another container's dig error itself: errors.Is with it as the target
			// panics inside the comparison (known finding F28)
			if is, pan := safeIs(ci.Error, rec.errVal()); pan != nil {
				m.violate("C13", "C13.errors-is-panics", "f%d returned another container's dig error as it is; errors.Is(err, thatError) panics: %v", f.ID, pan)
			} else if !is {
				m.violate("C20", "C20.callback-error", "f%d callback Error %v does not carry the function's error", f.ID, ci.Error)
			}
		} else if rec.Err.Inner != nil {
			// the function's error wraps a foreign dig error: RootCause looks through it (known finding of C13);
			// the callback must still carry the function's own error
			if !errors.Is(ci.Error, rec.errVal()) {
				m.violate("C20", "C20.callback-error", "f%d callback Error %v does not carry the function's error %v", f.ID, ci.Error, rec.Err)
			}
		} else if dig.RootCause(ci.Error) != rec.errVal() {
			m.violate("C20", "C20.callback-error", "f%d callback root cause %v is not the function's error %v", f.ID, dig.RootCause(ci.Error), rec.Err)
		}
	case "panic":
		if m.w.h.Opts.Recover {
			var pe dig.PanicError
			if !errors.As(ci.Error, &pe) {
				m.violate("C20", "C20.callback-panicerror", "f%d panicked (recovered) but callback Error %v is not a PanicError", f.ID, ci.Error)
			} else if pe.Panic != interface{}(rec.Pan) {
				m.violate("C20", "C20.callback-panicerror", "f%d callback PanicError carries %v, not the panic value", f.ID, pe.Panic)
			}
		}
	}
	if ci.Runtime != rec.Dur {
		m.violate("C20", "C20.callback-runtime", "f%d callback Runtime %v, time spent inside the function %v", f.ID, ci.Runtime, rec.Dur)
	}
	if _, isReg := m.role[f.ID].(*Reg); f.Pool > 0 || (f.LocPC > 0 && isReg) {
		want := fnDotName(f)
		if _, isDec := m.role[f.ID].(*Dec); isDec && f.Pool > 0 {
			want = poolName(f.Pool - 1)
		}
		if ci.Name != want {
			m.violate("C20", "C20.callback-name", "f%d callback Name %q want %q", f.ID, ci.Name, want)
		}
		m.stats["callback.name-checked"]++
	}
}

func (m *Monitor) flushCallbacks(where string) {
	for id := range m.cbPending {
		m.violate("C20", "C20.callback-missing", "f%d executed but its callback had not fired by %s", id, where)
	}
	if len(m.cbPending) > 0 {
		m.cbPending = map[int]*ExecRec{}
	}
}

func (m *Monitor) beforeCall(i int, op *Op, f *Fn) {
	m.pend = nil
	m.inv = nil
	switch op.Kind {
	case OpProvide:
		pc := &pendingCall{}
		reg := &Reg{F: f, Op: i, O: op.Scope, H: op.Scope, cb: op.Callback, as: op.As}
		if op.Export {
			reg.H = 0
		}
		reg.prod = prodKeys(f, op.As)
		pc.reg = reg
		// duplicate rule
		seenK := map[Key]bool{}
		for k, idxs := range reg.prod {
			if k.Group != "" {
				continue
			}
			if len(idxs) > 1 || seenK[k] {
				pc.dup = true
			}
			seenK[k] = true
			for _, x := range m.regs {
				if x.H == reg.H {
					if _, ok := x.prod[k]; ok {
						pc.dup = true
					}
				}
			}
		}
		if op.Invalid == "" {
			m.regs = append(m.regs, reg)
			cyc, allOH := m.gsCycle([]*Reg{reg}, true, false)
			pc.mustCycle = ((cyc && allOH) || m.viewCycleThrough(reg)) && !m.deferV
			pc.mayCycle = !m.deferV && m.gpCyclic(false)
			m.regs = m.regs[:len(m.regs)-1]
		}
		m.pend = pc
	case OpDecorate:
		pc := &pendingCall{}
		d := &Dec{F: f, Op: i, S: op.Scope, cb: op.Callback}
		d.prod = prodKeys(f, nil)
		pc.dec = d
		for k, idxs := range d.prod {
			if len(idxs) > 1 {
				pc.dup = true
			}
			for _, x := range m.decs {
				if x.S == d.S {
					if _, ok := x.prod[k]; ok {
						pc.dup = true
					}
				}
			}
		}
		m.pend = pc
	case OpInvoke:
		if op.Invalid != "" {
			return
		}
		st := &invokeState{f: f, s: op.Scope, doneAtStart: map[int]bool{}}
		start := node{f: f, s: op.Scope}
		m.resetMemo()
		st.may = m.mayInvoke(start)
		if m.mayOf == nil {
			m.mayOf = map[int]map[int]bool{}
		}
		m.mayOf[i] = m.may(start) // (unpruned: everything that can take part in this resolution)
		st.av = m.availParams(start)
		st.mustR, st.mustD = m.must(start)
		st.cycReq = m.mustCycleFrom(start)
		// a cycle lying entirely in one scope that the invoking scope sees (optional edges and
		// already-built members included) with a member in the closure: dig's own graph of the
		// invoking scope contains it, whatever has been built
		for r := range m.sameScopeCycleMembers(op.Scope) {
			if st.may[r.F.ID] {
				st.cycReq = true
			}
		}
		var firsts []*Reg
		tmp := &Reg{F: f, O: op.Scope, H: op.Scope}
		firsts = m.gsEdges(tmp, true)
		st.cycAll, _ = m.gsCycle(firsts, true, true)
		st.noMiss = m.noMissing(start)
		for id, n := range m.okExecs {
			if n > 0 {
				st.doneAtStart[id] = true
			}
		}
		st.onCycle = m.requiredCycleMembers()
		m.inv = st
	}
}

// sameScopeCycleMembers: registrations lying on a Gs cycle (optional edges included, done members
// included) all of whose members are provided to, and homed in, one scope visible from s.
func (m *Monitor) sameScopeCycleMembers(s int) map[*Reg]bool {
	out := map[*Reg]bool{}
	for sc := s; sc >= 0; sc = m.parent[sc] {
		var nodes []*Reg
		for _, r := range m.regs {
			if r.O == sc && r.H == sc {
				nodes = append(nodes, r)
			}
		}
		if len(nodes) == 0 {
			continue
		}
		idx := map[*Reg]int{}
		for i, r := range nodes {
			idx[r] = i
		}
		adj := make([][]int, len(nodes))
		for i, r := range nodes {
			for _, x := range m.gsEdges(r, true) {
				if j, ok := idx[x]; ok {
					adj[i] = append(adj[i], j)
				}
			}
		}
		for i := range nodes {
			seen := make([]bool, len(nodes))
			q := append([]int(nil), adj[i]...)
			for len(q) > 0 {
				u := q[0]
				q = q[1:]
				if u == i {
					out[nodes[i]] = true
					break
				}
				if seen[u] {
					continue
				}
				seen[u] = true
				q = append(q, adj[u]...)
			}
		}
	}
	return out
}

// requiredCycleMembers: registrations on a cycle made only of required single /
// non-soft group edges whose keys have no enclosing decorator, no member done.
func (m *Monitor) requiredCycleMembers() map[*Reg]bool {
	out := map[*Reg]bool{}
	if len(m.regs) == 0 {
		return out
	}
	idx := map[*Reg]int{}
	for i, r := range m.regs {
		idx[r] = i
	}
	n := len(m.regs)
	adj := make([][]int, n)
	for i, r := range m.regs {
		if r.done {
			continue
		}
		for _, p := range r.F.Params {
			if len(m.decsOf(r.O, p.K, nil)) > 0 {
				continue
			}
			if p.K.Group != "" {
				if p.Soft {
					continue
				}
				for _, x := range m.feeders(r.O, p.K) {
					if !x.done {
						adj[i] = append(adj[i], idx[x])
					}
				}
				continue
			}
			if p.Optional {
				continue
			}
			if x := m.nearest(r.O, p.K); x != nil && !x.done {
				adj[i] = append(adj[i], idx[x])
			}
		}
	}
	// member of a cycle iff it can reach itself
	for i := 0; i < n; i++ {
		seen := make([]bool, n)
		q := append([]int(nil), adj[i]...)
		for len(q) > 0 {
			u := q[0]
			q = q[1:]
			if u == i {
				out[m.regs[i]] = true
				break
			}
			if seen[u] {
				continue
			}
			seen[u] = true
			q = append(q, adj[u]...)
		}
	}
	return out
}

func isDigClass(err error) bool {
	var de dig.Error
	return err != nil && errors.As(dig.RootCause(err), &de)
}

func (m *Monitor) afterCall(i int, op *Op, f *Fn, rec *OpRec) {
	cl := rec.Verdict
	m.stats[op.Kind+"."+cl]++
	m.flushCallbacks(fmt.Sprintf("the end of op%d", i))
	switch op.Kind {
	case OpProvide, OpDecorate:
		pc := m.pend
		if rec.Panic != nil {
			m.violate("C14,C06", "C14.panic", "%s panicked: %v", op.Kind, rec.Panic)
			break
		}
		if len(rec.Execs) > 0 {
			// also reported by C03.outside-invoke at the event
		}
		if cl != VOk {
			if !isDigClass(rec.Err) {
				m.violate("C13", "C13.non-dig-rejection", "%s rejected with an error whose root cause is not a dig.Error: %T %v", op.Kind, dig.RootCause(rec.Err), rec.Err)
			}
			if op.Info && rec.InfoTouched {
				m.violate("C18,C06", "C18.info-touched-on-reject", "%s was rejected but its Info struct was written (ID=%d, %v)", op.Kind, rec.InfoID, rec.Info)
			}
		}
		switch {
		case op.Invalid != "":
			m.stats["invalid."+op.Invalid]++
			if cl == VOk {
				m.violate("C14,C09", "C14.invalid-accepted", "%s with deliberately invalid input (%s) was accepted", op.Kind, op.Invalid)
			} else if cl == VCycle {
				m.violate("C13", "C13.cycle-misclassified", "invalid input (%s) rejected with IsCycleDetected = true", op.Invalid)
			}
		case op.Kind == OpProvide:
			switch {
			case pc.dup:
				if cl == VOk {
					m.violate("C09", "C09.dup-accepted", "Provide of f%d duplicates a key already provided in its scope but was accepted", f.ID)
				} else if cl == VCycle && !pc.mustCycle && !pc.mayCycle {
					m.violate("C13", "C13.cycle-misclassified", "duplicate rejection of f%d reports IsCycleDetected", f.ID)
				}
			case pc.mustCycle:
				if cl != VCycle {
					m.violate("C05,C13", "C05.must-cycle", "Provide of f%d closes a cycle visible from one scope, verdict %s (%v)", f.ID, cl, rec.Err)
				}
			case cl == VCycle:
				if !pc.mayCycle {
					m.violate("C05,C13,C16", "C05.spurious-cycle", "Provide of f%d rejected as a cycle but the permissive graph is acyclic: %v", f.ID, rec.Err)
				}
			case cl != VOk:
				m.violate("C09,C14,C06", "C09.valid-rejected", "valid Provide of f%d rejected: %s %v", f.ID, cl, rec.Err)
			}
		default: // decorate
			if pc.dup && cl == VOk {
				m.violate("C12", "C12.dup-decorator-accepted", "second decorator f%d for an already decorated key accepted in s%d", f.ID, op.Scope)
			}
			if !pc.dup && cl != VOk {
				m.violate("C12,C14,C06", "C12.valid-decorate-rejected", "valid Decorate of f%d rejected: %s %v", f.ID, cl, rec.Err)
			}
			if cl == VCycle {
				m.violate("C13", "C13.cycle-misclassified", "Decorate rejection reports IsCycleDetected")
			}
		}
		if cl == VCycle && op.Kind == OpProvide && op.Invalid == "" && pc != nil {
			m.checkCyclePath(OpProvide, pc.reg, rec)
		}
		if cl == VOk && op.Invalid == "" {
			if op.Kind == OpProvide {
				m.regs = append(m.regs, pc.reg)
				m.role[f.ID] = pc.reg
			} else {
				m.decs = append(m.decs, pc.dec)
				m.role[f.ID] = pc.dec
			}
			if op.Info {
				m.checkInfo(op, f, rec)
			}
		}
	case OpInvoke:
		m.afterInvoke(i, op, f, rec)
	}
	m.pend = nil
	m.inv = nil
	if m.reentrant {
		// the operation during which user code called back into the container is over: the spec state was
		// kept up to date by the events of the nested calls, later operations are judged in full again
		m.stats["reentrant.ops"]++
		m.reentrant = false
	}
}

// fnDotName: the "package.Name" dig reports for a harness function.
func fnDotName(f *Fn) string {
	if f.LocPC > 0 {
		return "digverif/vt." + LocNames[f.LocPC-1]
	}
	if f.Pool > 0 {
		return poolName(f.Pool - 1)
	}
	return "reflect.makeFuncStub"
}

// checkCyclePath (C05: "a reported cycle path is a real closed path"): the path of a cycle rejection,
// read through the hook VerifCyclePath, must be closed and every step must be a dependency: the
// constructor named first consumes (through any parameter kind) a key that the constructor named next
// produces. candidate is the constructor a rejected Provide tried to add. An Invoke may also report the
// single constructor that was met again while it was being built.
func (m *Monitor) checkCyclePath(kind string, candidate *Reg, rec *OpRec) {
	path, _, ok := dig.VerifCyclePath(rec.Err)
	if !ok {
		return
	}
	m.stats["cycle.path-checked"]++
	if len(path) == 0 {
		m.violate("C05", "C05.cycle-path", "cycle rejection with an empty path: %v", rec.Err)
		return
	}
	// dig lists the constructors met along a closed path of its graph, which also holds value-group
	// nodes: when the search started at a group node the list is a rotation that does not repeat its
	// first constructor. The list is therefore read cyclically: every step, including the one from the
	// last entry back to the first, must be a dependency (a single entry must depend on itself).
	reported := append([]string(nil), path...)
	if len(path) >= 2 && path[0] == path[len(path)-1] {
		path = path[:len(path)-1]
	}
	if kind == OpInvoke && len(path) == 1 && len(reported) == 1 {
		// the constructor that was met again while it was being built (runtime guard): the members of
		// the cycle in between are not known to dig at that point
		m.stats["cycle.path-single"]++
		return
	}
	regs := append([]*Reg(nil), m.regs...)
	if candidate != nil {
		regs = append(regs, candidate)
	}
	byName := map[string][]*Reg{}
	for _, r := range regs {
		byName[fnDotName(r.F)] = append(byName[fnDotName(r.F)], r)
	}
	for i := 0; i < len(path); i++ {
		next := path[(i+1)%len(path)]
		found := false
		for _, a := range byName[path[i]] {
			for _, b := range byName[next] {
				for _, p := range a.F.Params {
					if _, ok := b.prod[p.K]; ok {
						found = true
					}
				}
			}
		}
		if len(byName[path[i]]) == 0 || len(byName[next]) == 0 {
			m.violate("C05", "C05.cycle-path", "reported cycle path %v names a function that is no constructor of this container (step %d)", reported, i)
			return
		}
		if !found {
			m.violate("C05", "C05.cycle-path", "reported cycle path %v: step %d (%s -> %s) is not a dependency", reported, i, path[i], next)
			return
		}
		m.stats["cycle.path-steps"]++
	}
}

func (m *Monitor) afterInvoke(i int, op *Op, f *Fn, rec *OpRec) {
	cl := rec.Verdict
	st := m.inv
	if cl == VCycle && op.Invalid == "" && !m.w.h.Opts.Dry {
		foreign := false
		if st != nil {
			for _, e := range st.failed {
				if e.Err != nil && e.Err.Cycle {
					foreign = true // the path is that of another container's rejection (F25)
				}
			}
		}
		if !foreign {
			m.checkCyclePath(OpInvoke, nil, rec)
		}
	}
	if op.Invalid != "" {
		if rec.Panic != nil {
			m.violate("C14", "C14.panic", "Invoke panicked on invalid input (%s): %v", op.Invalid, rec.Panic)
		} else if cl == VOk {
			m.violate("C14", "C14.invalid-accepted", "Invoke of invalid input (%s) succeeded", op.Invalid)
		} else if !isDigClass(rec.Err) {
			m.violate("C13", "C13.non-dig-rejection", "Invoke rejected invalid input with a non-dig error %v", rec.Err)
		}
		return
	}
	if m.w.h.Opts.Dry {
		if rec.Panic != nil {
			m.violate("C14", "C14.panic", "Invoke panicked in a dry container: %v", rec.Panic)
		}
		return
	}
	{
		ii := &invInfo{f: f, s: op.Scope, verdict: cl, failedFn: -1, av: st.av, cyc: st.cycAll || st.cycReq}
		for _, e := range append(append([]*ExecRec(nil), st.failed...), st.panicked...) {
			if (e.Err != nil && e.Err.Inner != nil) || (e.Pan != nil && e.Pan.Inner != nil) {
				ii.foreign = true
			}
			if e.Fn == f.ID {
				ii.selfFail = true
			} else if ii.failedFn < 0 {
				ii.failedFn = e.Fn
			}
		}
		for id := range st.may {
			if _, ok := m.role[id].(*Dec); ok {
				ii.hadDec = true
			}
		}
		m.invInfos[i] = ii
	}
	if st.cbPanicked {
		m.stats["invoke.callback-panicked"]++
		return
	}
	rcv := m.w.h.Opts.Recover
	// panics
	if rec.Panic != nil {
		if len(st.panicked) == 0 || rcv {
			m.violate("C14,C05", "C14.panic", "Invoke panicked: %v", rec.Panic)
		} else if rec.Panic != interface{}(st.panicked[0].Pan) {
			m.violate("C13", "C13.panic-value", "escaped panic %v is not the value the function panicked with", rec.Panic)
		}
	}
	if len(st.panicked) > 0 {
		m.stats["invoke.with-panic"]++
		if rcv {
			var pe dig.PanicError
			if !errors.As(rec.Err, &pe) || pe.Panic != interface{}(st.panicked[0].Pan) {
				m.violate("C13,C07", "C13.panicerror", "recovered panic not reported as a PanicError carrying the value: %v", rec.Err)
			} else if _, ok := dig.RootCause(rec.Err).(dig.PanicError); !ok {
				m.violate("C13,C07", "C13.panic-rootcause", "root cause of a recovered panic is %T", dig.RootCause(rec.Err))
			} else {
				var de dig.Error
				if errors.As(dig.RootCause(rec.Err), &de) {
					m.violate("C13", "C13.panic-is-dig-error", "PanicError root cause satisfies dig.Error")
				}
			}
		} else if rec.Panic == nil {
			m.violate("C13", "C13.panic-swallowed", "a function panicked without RecoverFromPanics but Invoke returned (%s)", cl)
		}
	}
	if cl == VOk && st.ranSelf != 1 {
		m.violate("C01", "C01.invoke-count", "Invoke returned nil but the function ran %d times", st.ranSelf)
	}
	selfFailed := false
	for _, e := range st.failed {
		if e.Fn == f.ID {
			selfFailed = true
		}
	}
	for _, e := range st.panicked {
		if e.Fn == f.ID {
			selfFailed = true
		}
	}
	if cl != VOk && cl != VPanic && st.ranSelf != 0 && !selfFailed {
		m.violate("C04,C01", "C04.ran-on-error", "Invoke failed (%s) but the invoked function ran", cl)
	}
	switch {
	case len(st.panicked) > 0:
	case len(st.failed) > 0:
		m.stats["invoke.with-error"]++
		e := st.failed[0]
		if e.Err != nil && e.Err.Raw {
			// The function returned another container's dig error as it is. The Invoke then fails with a chain
			// whose root cause is a dig error (of that other container). The returned error must still be in
			// the chain; looking for it with errors.Is panics inside the comparison (known finding F28).
			m.stats["invoke.with-raw-dig-error"]++
			if cl != VDig && cl != VUser {
				m.violate("C07,C04,C13", "C07.failure-hidden", "f%d returned an error but the Invoke verdict is %s (%v)", e.Fn, cl, rec.Err)
			} else if is, pan := safeIs(rec.Err, e.errVal()); pan != nil {
				m.violate("C13", "C13.errors-is-panics", "f%d returned another container's dig error as it is; errors.Is(err, thatError) panics: %v", e.Fn, pan)
			} else if !is {
				m.violate("C13,C07", "C13.rootcause", "errors.Is does not find the returned error in %v", rec.Err)
			}
			break
		}
		if cl == VCycle && e.Err != nil && e.Err.Cycle && errors.Is(rec.Err, e.Err) {
			// known finding F25 (same mechanism as F16): IsCycleDetected looks through the user's error and
			// finds the cycle rejection of ANOTHER container that it wraps
			m.stats["invoke.with-nested-cycle-error"]++
			m.violate("C13", "C13.foreign-cycle-misclassified", "f%d returned an error that wraps another container's cycle rejection; IsCycleDetected(err) is true although this container rejected no cycle", e.Fn)
		} else if cl != VUser {
			m.violate("C07,C04,C13", "C07.failure-hidden", "f%d returned an error but the Invoke verdict is %s (%v)", e.Fn, cl, rec.Err)
		} else if e.Fn == f.ID {
			if rec.Err != e.errVal() {
				m.violate("C13", "C13.invoked-error-changed", "Invoke returned %v, not the invoked function's own error value", rec.Err)
			}
		} else if !errors.Is(rec.Err, e.errVal()) {
			m.violate("C13,C07", "C13.rootcause", "errors.Is does not find the injected error %v in %v", e.Err, rec.Err)
		} else if rc := dig.RootCause(rec.Err); rc != e.errVal() {
			// known finding F16: RootCause looks THROUGH a user error that wraps a dig error and yields the root
			// cause of the wrapped (foreign) error. Anything else is an ordinary C13.rootcause violation.
			if e.Err.Inner != nil && rc != nil && fmt.Sprintf("%T|%v", rc, rc) == fmt.Sprintf("%T|%v", dig.RootCause(e.Err.Inner), dig.RootCause(e.Err.Inner)) {
				m.stats["invoke.with-nested-dig-error"]++
				m.violate("C13", "C13.rootcause-nested-dig-error", "f%d returned an error that wraps another container's dig error; RootCause yields %T %v, not the function's own error", e.Fn, rc, rc)
			} else {
				m.violate("C13,C07", "C13.rootcause", "root cause %v is not the injected error %v", rc, e.Err)
			}
		}
	default:
		if cl == VUser || cl == VPanicErr {
			m.violate("C13", "C13.phantom-user-error", "verdict %s without any failing function: %v", cl, rec.Err)
		}
		if cl == VOther {
			m.violate("C13", "C13.non-dig-rejection", "Invoke failed with an error whose root cause is not a dig.Error: %v", rec.Err)
		}
		if st.cycReq && cl == VOk {
			m.violate("C05", "C05.invoke-cycle-ok", "a cycle of required dependencies is reachable but Invoke succeeded")
		}
		if st.cycAll && st.noMiss && cl != VCycle && cl != VPanic {
			m.violate("C05,C13", "C05.invoke-must-cycle", "a dependency cycle is the only reason to fail but verdict is %s (%v)", cl, rec.Err)
		}
		if cl == VCycle && !m.gpCyclic(true) {
			m.violate("C05,C13,C04,C08,C16"+m.afterFailure("C07"), "C05.invoke-spurious-cycle", "Invoke reports a cycle but the permissive graph (with decorators) is acyclic: %v", rec.Err)
		}
		if cl != VCycle && !st.cycAll && cl != VPanic {
			switch st.av {
			case avYes:
				m.stats["invoke.avail-yes"]++
				if cl != VOk {
					props := "C04,C08"
					for id := range st.may {
						if _, ok := m.role[id].(*Dec); ok {
							// a decorator is in the closure: consumers below it must still be served
							props = "C04,C08,C12"
						}
					}
					for _, r := range m.regs {
						if len(r.as) > 0 {
							// a value must be obtainable under every interface its As list names
							props += ",C09"
							break
						}
					}
					m.violate(props, "C04.should-succeed", "every dependency of f%d is available from s%d but Invoke failed: %s %v", f.ID, op.Scope, cl, rec.Err)
				}
			case avNo:
				m.stats["invoke.avail-no"]++
				if cl != VDig {
					m.violate("C04,C08,C09", "C04.should-fail", "a required dependency of f%d is unavailable from s%d but verdict is %s", f.ID, op.Scope, cl)
				}
			default:
				m.stats["invoke.avail-unknown"]++
			}
		}
	}
	if cl == VOk {
		for _, r := range st.mustR {
			if !r.done {
				m.violate("C03,C07", "C03.must-not-done", "Invoke succeeded but f%d in its required closure has not run", r.F.ID)
			}
		}
		for _, d := range st.mustD {
			if !d.done {
				m.violate("C03,C12,C07", "C03.must-not-done", "Invoke succeeded but decorator f%d in its required closure has not run", d.F.ID)
			}
		}
	}
	if op.Info && (cl == VOk || st.ranSelf > 0) {
		m.checkInfo(op, f, rec)
	}
}

// expectedInfo computes the Info entry list from the function spec.
func expectedInfo(f *Fn, as []int, withOutputs bool) []string {
	var out []string
	for _, p := range f.Params {
		t := typeName[p.K.T]
		var toks []string
		if p.K.Group != "" {
			t = sliceTypeOf(p.K.T, p.Slice).String()
			toks = append(toks, fmt.Sprintf("group = %q", p.K.Group))
		} else {
			if p.Optional {
				toks = append(toks, "optional")
			}
			if p.K.Name != "" {
				toks = append(toks, fmt.Sprintf("name = %q", p.K.Name))
			}
		}
		s := t
		if len(toks) > 0 {
			s = fmt.Sprintf("%v[%v]", t, strings.Join(toks, ", "))
		}
		out = append(out, "in:"+s)
	}
	if !withOutputs {
		return out
	}
	for _, r := range f.Results {
		var ts []int
		for _, a := range as {
			dup := false
			for _, x := range ts {
				if x == a {
					dup = true
				}
			}
			if !dup {
				ts = append(ts, a)
			}
		}
		if len(ts) == 0 {
			ts = []int{r.K.T}
		}
		for _, t := range ts {
			tn := typeName[t]
			if r.Whole {
				tn = sliceTypeOf(t, r.Slice).String()
			}
			s := tn
			if r.K.Name != "" {
				s = fmt.Sprintf("%v[name = %q]", tn, r.K.Name)
			} else if r.K.Group != "" {
				s = fmt.Sprintf("%v[group = %q]", tn, r.K.Group)
			}
			out = append(out, "out:"+s)
		}
	}
	return out
}

// ids observed for declared pool functions, across all containers of this process
var (
	poolIDOf  = map[int]int64{}
	poolOfID  = map[int64]int{}
	dynIDSeen = map[int64]bool{}
)

func (m *Monitor) checkInfo(op *Op, f *Fn, rec *OpRec) {
	if op.Kind != OpInvoke && !stressMode {
		if f.Pool > 0 {
			idx := f.Pool - 1
			m.stats["info.ids-checked"]++
			if prev, ok := poolIDOf[idx]; ok && prev != rec.InfoID {
				m.violate("C18", "C18.id-unstable", "function %s got ID %d, earlier %d", poolName(idx), rec.InfoID, prev)
			}
			if other, ok := poolOfID[rec.InfoID]; ok && other != idx {
				m.violate("C18", "C18.id-collision", "functions %s and %s share ID %d", poolName(idx), poolName(other), rec.InfoID)
			}
			if dynIDSeen[rec.InfoID] {
				m.violate("C18", "C18.id-collision", "function %s shares ID %d with a reflect-made function", poolName(idx), rec.InfoID)
			}
			poolIDOf[idx], poolOfID[rec.InfoID] = rec.InfoID, idx
		} else {
			// every reflect-made function is backed by the same code (reflect's stub): the same ID, always
			for prev := range dynIDSeen {
				if prev != rec.InfoID {
					m.violate("C18", "C18.id-unstable", "reflect-made functions (one backing function) got IDs %d and %d", prev, rec.InfoID)
					break
				}
			}
			m.stats["info.ids-checked"]++
			dynIDSeen[rec.InfoID] = true
			if _, ok := poolOfID[rec.InfoID]; ok {
				m.violate("C18", "C18.id-collision", "a reflect-made function shares ID %d with %s", rec.InfoID, poolName(poolOfID[rec.InfoID]))
			}
		}
	}
	want := expectedInfo(f, op.As, op.Kind != OpInvoke)
	m.stats["info.checked"]++
	m.stats["info.entries"] += len(want)
	if strings.Join(want, "\n") != strings.Join(rec.Info, "\n") {
		m.violate("C18", "C18.info-mismatch", "%s Info of %s: got %v want %v", op.Kind, f.Sig(), rec.Info, want)
	}
}

func (m *Monitor) onVisualize(i int, op *Op, rec *OpRec, verr error) {
	if rec.Panic != nil {
		m.violate("C14,C19", "C14.visualize-panic", "Visualize panicked: %v", rec.Panic)
		return
	}
	if len(rec.Execs) > 0 {
		m.violate("C03", "C03.outside-invoke", "Visualize executed user code")
	}
	m.checkDot(i, op, rec, verr)
}

func (m *Monitor) onString(i int, rec *OpRec) {
	if rec.Panic != nil {
		m.violate("C14", "C14.string-panic", "String panicked: %v", rec.Panic)
	}
}

func (m *Monitor) onEnd() {
	m.flushCallbacks("the end of the history")
}

func sortedKeys(m map[string]int) []string {
	var ks []string
	for k := range m {
		ks = append(ks, k)
	}
	sort.Strings(ks)
	return ks
}

func min(a, b int) int {
	if a < b {
		return a
	}
	return b
}
