package main

import (
	"bytes"
	. "digverif/vt"
	"errors"
	"fmt"
	"reflect"
	"strconv"
	"strings"
	"sync"
	"time"

	"go.uber.org/dig"
)

// InjErr is the unique error a faulted execution returns. With fault kind "digerr" it wraps
// (Unwrap) an error that a DIFFERENT dig container returned for a failed Invoke (missing
// dependencies): a user function that drives a sub-container and reports its failure.
type InjErr struct {
	Fn, Exec int
	Inner    error
	Cycle    bool // Inner is a foreign CYCLE rejection
	Raw      bool // fault kind "rawdigerr": the function returned Inner ITSELF, not this error wrapping it
}

func (e *InjErr) Error() string {
	if e.Inner != nil {
		return fmt.Sprintf("injected error f%d#%d wrapping a foreign dig error: %v", e.Fn, e.Exec, e.Inner)
	}
	return fmt.Sprintf("injected error f%d#%d", e.Fn, e.Exec)
}

func (e *InjErr) Unwrap() error { return e.Inner }

// chainHasTypedNil: some error in the chain is a nil pointer wrapped in a non-nil error interface.
func chainHasTypedNil(err error) bool {
	for i := 0; err != nil && i < 64; i++ {
		if v := reflect.ValueOf(err); v.Kind() == reflect.Ptr && v.IsNil() {
			return true
		}
		err = errors.Unwrap(err)
	}
	return false
}

// foreignCycleError: the cycle rejection another container (DeferAcyclicVerification) returns for an Invoke.
func foreignCycleError() error {
	sub := dig.New(dig.DeferAcyclicVerification())
	type ping struct{}
	type pong struct{}
	_ = sub.Provide(func(pong) ping { return ping{} })
	_ = sub.Provide(func(ping) pong { return pong{} })
	return sub.Invoke(func(ping) {})
}

// foreignDigError: the error another container returns for an Invoke with a missing dependency.
func foreignDigError() error {
	sub := dig.New()
	type absent struct{}
	type needsAbsent struct{}
	_ = sub.Provide(func(absent) needsAbsent { return needsAbsent{} })
	return sub.Invoke(func(needsAbsent) {})
}

// foreignPanicError: the error of a different container (with RecoverFromPanics) whose constructor panicked; its
// chain holds that container's dig.PanicError.
func foreignPanicError() error {
	sub := dig.New(dig.RecoverFromPanics())
	type boom struct{}
	_ = sub.Provide(func() boom { panic("plugin exploded") })
	return sub.Invoke(func(boom) {})
}

// InjPanic is the unique value a faulted execution panics with. It is an error value (user code
// commonly does panic(err)); with fault kind "panicdigerr" it wraps another container's dig error.
type InjPanic struct {
	Fn, Exec int
	Inner    error
}

func (e *InjPanic) Error() string {
	if e.Inner != nil {
		return fmt.Sprintf("injected panic f%d#%d wrapping a foreign dig error: %v", e.Fn, e.Exec, e.Inner)
	}
	return fmt.Sprintf("injected panic f%d#%d", e.Fn, e.Exec)
}

func (e *InjPanic) Unwrap() error { return e.Inner }

var (
	errT = reflect.TypeOf((*error)(nil)).Elem()
	inT  = reflect.TypeOf(dig.In{})
	outT = reflect.TypeOf(dig.Out{})
	varT = reflect.TypeOf([]V7{})
)

// Verdict classes, computed from public predicates only.
const (
	VOk       = "ok"
	VCycle    = "cycle"
	VDig      = "dig"
	VPanicErr = "panicerr"
	VUser     = "user"
	VOther    = "other"
	VPanic    = "PANIC"
)

func classify(err error) string {
	if err == nil {
		return VOk
	}
	if dig.IsCycleDetected(err) {
		return VCycle
	}
	var pe dig.PanicError
	if errors.As(err, &pe) {
		return VPanicErr
	}
	var ie *InjErr
	if errors.As(err, &ie) {
		// (identity through RootCause is a separate rule, C13.rootcause)
		return VUser
	}
	var te *TErr
	if errors.As(err, &te) {
		return VUser // the harness's concrete error type, a nil pointer of it included
	}
	var de dig.Error
	if errors.As(dig.RootCause(err), &de) {
		return VDig
	}
	return VOther
}

// mat is a materialised function: the Go value handed to dig plus the paths
// through which the body reads its logical params and writes its results.
type mat struct {
	fn     *Fn
	val    interface{}
	ins    []reflect.Type
	outs   []reflect.Type
	pPaths [][]int // per logical param: arg index, then struct field indexes
	rPaths [][]int // per logical result: result index, then struct field indexes
	errIdx int     // index of the error result that carries injected faults
}

// ExecRec is one execution of a user function as observed at the boundary.
type ExecRec struct {
	Fn      int
	Exec    int
	Op      int
	Args    [][]*Tok // per logical param (group: all elements; single: one entry, nil = zero value)
	Outcome string   // "ok" | "err" | "panic" | "" (still open)
	Toks    map[int][]*Tok
	Err     *InjErr
	// ErrV: the error VALUE the function returned when that is not Err itself: a nil *TErr stored in the error
	// result - a non-nil error by Go's rules, which dig has to treat like any other (Err then only keeps the books).
	ErrV error
	Pan  *InjPanic
	Dur  time.Duration
}

// errVal: the error value the execution returned.
func (r *ExecRec) errVal() error {
	if r.ErrV != nil {
		return r.ErrV
	}
	return r.Err
}

// safeIs is errors.Is, with a panic of the comparison itself reported instead of propagated (comparing two
// interface values that hold the same uncomparable dynamic type panics).
func safeIs(err, target error) (is bool, pan interface{}) {
	defer func() { pan = recover() }()
	return errors.Is(err, target), nil
}

// OpRec is the observable outcome of one API call.
type OpRec struct {
	Verdict     string
	Err         error
	Panic       interface{}
	Execs       []*ExecRec // executions that happened inside this call, in entry order
	Info        []string   // rendered Info entries (inputs then outputs), when requested and filled
	InfoID      int64
	InfoTouched bool
	Dot         string
	Str         string
	VisOK       bool // CanVisualizeError for VisErrOf ops
}

// World runs one History against a real dig container.
type World struct {
	h       *History
	c       *dig.Container
	scopes  []*dig.Scope // index 0 unused (root container)
	parent  []int
	mats    map[int]*mat
	advance func(time.Duration)

	mon *Monitor // nil: no model-based monitoring (differential-only runs)

	// Options.ReuseInfo: the Info structs shared by all calls of the history
	pInfo dig.ProvideInfo
	dInfo dig.DecorateInfo
	iInfo dig.InvokeInfo

	curOp   int
	curKind string
	ops     []*OpRec
	execs   map[int]int // fn id -> executions so far
	open    []*ExecRec  // stack of executions in progress
	trace   bool
	log     []string

	cbSeen      map[int]int // fn id -> callbacks observed
	noClock     bool
	regScope    map[int]int // fn id -> scope of the op that registered it
	nestedPanic interface{}
}

func (w *World) logf(f string, a ...interface{}) {
	if w.trace {
		w.log = append(w.log, fmt.Sprintf(f, a...))
	}
}

func newWorld(h *History, withMonitor bool, trace bool) *World {
	w := &World{h: h, mats: map[int]*mat{}, execs: map[int]int{}, cbSeen: map[int]int{}, trace: trace, regScope: map[int]int{}}
	var opts []dig.Option
	if h.Opts.Defer {
		opts = append(opts, dig.DeferAcyclicVerification())
	}
	if h.Opts.Recover {
		opts = append(opts, dig.RecoverFromPanics())
	}
	if h.Opts.Dry {
		opts = append(opts, dig.DryRun(true))
	}
	clk, adv := dig.VerifMockClock()
	w.advance = adv
	opts = append(opts, clk, dig.VerifSeedRand(h.Opts.RandSeed+1))
	// the order in which options are given must not matter: a permutation determined by the history
	if n := len(opts); h.Opts.OptOrder > 0 && n > 1 {
		k := h.Opts.OptOrder
		for i := n - 1; i > 0; i-- {
			j := int(k % int64(i+1))
			k /= int64(i + 1)
			opts[i], opts[j] = opts[j], opts[i]
		}
	}
	w.c = dig.New(opts...)
	w.scopes = []*dig.Scope{nil}
	w.parent = []int{-1}
	if withMonitor {
		w.mon = newMonitor(w)
	}
	return w
}

func defaultEnc(n int, needObj bool) []Enc {
	if n == 0 {
		return nil
	}
	leaves := make([]Enc, n)
	for i := range leaves {
		leaves[i] = Enc{Leaf: i}
	}
	if needObj {
		return []Enc{{IsObj: true, Obj: leaves}}
	}
	return leaves
}

func paramTag(p Param) string {
	var parts []string
	if p.K.Group != "" {
		g := p.K.Group
		if p.Soft {
			g += ",soft"
		}
		parts = append(parts, fmt.Sprintf(`group:%s`, strconv.Quote(g)))
	} else {
		if p.K.Name != "" {
			parts = append(parts, fmt.Sprintf(`name:%s`, strconv.Quote(p.K.Name)))
		}
		if p.Optional {
			parts = append(parts, `optional:"true"`)
		}
	}
	return strings.Join(parts, " ")
}

func resTag(r Res) string {
	if r.K.Group != "" {
		g := r.K.Group
		if r.Flatten {
			g += ",flatten"
		}
		return fmt.Sprintf(`group:%s`, strconv.Quote(g))
	}
	if r.K.Name != "" {
		return fmt.Sprintf(`name:%s`, strconv.Quote(r.K.Name))
	}
	return ""
}

func paramGoType(p Param) reflect.Type {
	if p.K.Group != "" {
		return sliceTypeOf(p.K.T, p.Slice)
	}
	return typeTab[p.K.T]
}

func resGoType(r Res) reflect.Type {
	if r.Flatten || r.Whole {
		return sliceTypeOf(r.K.T, r.Slice)
	}
	return typeTab[r.K.T]
}

var structCache = map[string]reflect.Type{}

// typeIdent numbers reflect.Types by identity (call with structCacheMu held).
var typeIdents = map[reflect.Type]int{}

func typeIdent(t reflect.Type) int {
	id, ok := typeIdents[t]
	if !ok {
		id = len(typeIdents) + 1
		typeIdents[t] = id
	}
	return id
}

var structCacheMu sync.Mutex

func structOf(fields []reflect.StructField) reflect.Type {
	structCacheMu.Lock()
	defer structCacheMu.Unlock()
	var b strings.Builder
	for _, f := range fields {
		b.WriteString(f.Name)
		b.WriteByte('|')
		b.WriteString(f.Type.String())
		// distinct types may print identically (types of the same name from different scopes or packages)
		b.WriteByte('#')
		b.WriteString(strconv.Itoa(typeIdent(f.Type)))
		if f.Type.Kind() == reflect.Struct && f.Type.Name() == "" {
			fmt.Fprintf(&b, "@%p", f.Type)
		}
		b.WriteByte('|')
		b.WriteString(string(f.Tag))
		b.WriteByte(';')
	}
	k := b.String()
	if t, ok := structCache[k]; ok {
		return t
	}
	defer func() {
		if p := recover(); p != nil {
			panic(fmt.Sprintf("%v; fields: %s", p, k))
		}
	}()
	t := reflect.StructOf(fields)
	structCache[k] = t
	return t
}

// layoutIndex: struct field index of child j (of n) of an object with layout lay.
func layoutIndex(lay, j int) int {
	switch lay {
	case 1, 5:
		return j
	case 3:
		return j + 2
	case 4, 7:
		if j == 0 {
			return 0
		}
		return j + 1
	}
	return j + 1
}

var unexportedField = reflect.StructField{Name: "u", PkgPath: "digverif", Type: reflect.TypeOf(0)}

// buildEnc builds the Go types of a list of encoding items and records leaf paths.
// idxOf maps the position of an item to its index in the enclosing argument list or struct.
func buildEnc(items []Enc, embed reflect.Type, embedName string, leafType func(int) reflect.Type, leafTag func(int) string, paths [][]int, prefix []int, idxOf func(int) int) []reflect.Type {
	var types []reflect.Type
	for i, it := range items {
		p := append(append([]int(nil), prefix...), idxOf(i))
		if it.IsObj {
			lay := it.Lay
			if embedName != "In" && (lay == 2 || lay == 3) {
				lay = 0
			}
			if (lay == 4 || lay == 7) && len(it.Obj) == 0 {
				lay = 0
			}
			if lay == 8 && (embedName != "In" || len(it.Obj) < 2 || it.Obj[0].IsObj) {
				lay = 5
			}
			embedFirst := lay == 8
			if lay == 8 {
				lay = 5
			}
			if lay == 5 || lay == 6 {
				// composition by embedding: nested objects become embedded (anonymous) fields; with lay 5 the
				// object has no dig.In/dig.Out of its own and is one only through what it embeds
				hasObj := false
				for _, ch := range it.Obj {
					if ch.IsObj {
						hasObj = true
					}
				}
				if !hasObj {
					lay = 0
				}
			}
			sub := buildEnc(it.Obj, embed, embedName, leafType, leafTag, paths, p, func(j int) int { return layoutIndex(lay, j) })
			emb := reflect.StructField{Name: embedName, Type: embed, Anonymous: true}
			if lay == 2 || lay == 3 {
				emb.Tag = `ignore-unexported:"true"`
			}
			var children []reflect.StructField
			for j, st := range sub {
				tag := ""
				if !it.Obj[j].IsObj {
					tag = leafTag(it.Obj[j].Leaf)
				} else if embedName == "In" && !((lay == 5 || lay == 6) && it.Obj[j].IsObj) {
					switch it.Obj[j].Junk {
					case 1:
						tag = `optional:"true"`
					case 2:
						tag = `name:"zz"`
					case 3:
						tag = `name:"zz" optional:"true"`
					}
				}
				sf := reflect.StructField{Name: "F" + strconv.Itoa(j), Type: st, Tag: reflect.StructTag(tag)}
				if (lay == 5 || lay == 6) && it.Obj[j].IsObj {
					sf.Name, sf.Anonymous = "E"+strconv.Itoa(j), true
				}
				children = append(children, sf)
			}
			if lay == 7 || (embedFirst && lay == 5) {
				// the first dependency is embedded (anonymous field) ahead of the In/Out embed, when it is a
				// plain struct type without methods (reflect.StructOf cannot embed types with methods)
				if c0 := children[0]; !it.Obj[0].IsObj && c0.Type.Kind() == reflect.Struct && c0.Type.Name() != "" && c0.Type.NumMethod() == 0 && reflect.PointerTo(c0.Type).NumMethod() == 0 {
					children[0].Name, children[0].Anonymous = c0.Type.Name(), true
				}
			}
			var fields []reflect.StructField
			switch lay {
			case 1:
				fields = append(append(fields, children...), emb)
			case 2:
				fields = append(append(append(fields, emb), children...), unexportedField)
			case 3:
				fields = append(append(append(fields, unexportedField), emb), children...)
			case 4, 7:
				fields = append(append(append(fields, children[0]), emb), children[1:]...)
			case 5:
				fields = append(fields, children...)
			default:
				fields = append(append(fields, emb), children...)
			}
			types = append(types, structOf(fields))
		} else {
			paths[it.Leaf] = p
			types = append(types, leafType(it.Leaf))
		}
	}
	return types
}

// materialize builds (once per function and option-encoding) the Go function for f.
// viaOpt: names/groups of the results are given by Provide options, so no result tags.
func (w *World) materialize(f *Fn, viaOpt bool) *mat {
	mk := f.ID * 2
	if viaOpt {
		mk++
	}
	if m, ok := w.mats[mk]; ok {
		return m
	}
	m := &mat{fn: f}
	pe := f.PEnc
	if pe == nil {
		need := false
		for _, p := range f.Params {
			if p.K.Name != "" || p.Optional || p.K.Group != "" {
				need = true
			}
		}
		pe = defaultEnc(len(f.Params), need)
	}
	re := f.REnc
	if re == nil {
		need := false
		for _, r := range f.Results {
			if !viaOpt && (r.K.Name != "" || r.K.Group != "") {
				need = true
			}
			if r.Whole {
				need = true
			}
		}
		re = defaultEnc(len(f.Results), need)
	}
	m.pPaths = make([][]int, len(f.Params))
	m.rPaths = make([][]int, len(f.Results))
	m.ins = buildEnc(pe, inT, "In", func(i int) reflect.Type { return paramGoType(f.Params[i]) },
		func(i int) string { return paramTag(f.Params[i]) }, m.pPaths, nil, func(i int) int { return i })
	m.outs = buildEnc(re, outT, "Out", func(i int) reflect.Type { return resGoType(f.Results[i]) },
		func(i int) string {
			if viaOpt {
				return ""
			}
			r := f.Results[i]
			if r.Whole {
				return fmt.Sprintf(`group:%s`, strconv.Quote(r.K.Group))
			}
			return resTag(r)
		}, m.rPaths, nil, func(i int) int { return i })
	if f.Variadic {
		m.ins = append(m.ins, varT)
	}
	if f.HasErr {
		if f.ErrPos > 0 && f.Pool == 0 {
			m.outs = append([]reflect.Type{errT}, m.outs...)
			for i := range m.rPaths {
				m.rPaths[i][0]++
			}
			m.errIdx = 0
			if f.ErrPos == 2 {
				m.outs = append(m.outs, errT)
			}
		} else {
			m.outs = append(m.outs, errT)
			m.errIdx = len(m.outs) - 1
		}
	}
	if f.HasErr && f.ErrType == 1 && f.Pool == 0 {
		for i, t := range m.outs {
			if t == errT {
				m.outs[i] = reflect.TypeOf((*TErr)(nil))
			}
		}
	}
	body := func(args []reflect.Value) []reflect.Value { return w.body(m, args) }
	if f.Pool > 0 {
		m.val = bindPool(f.Pool-1, m, body)
	} else {
		m.val = reflect.MakeFunc(reflect.FuncOf(m.ins, m.outs, f.Variadic), body).Interface()
	}
	w.mats[mk] = m
	return m
}

func walkPath(v reflect.Value, path []int) reflect.Value {
	for _, i := range path {
		v = v.Field(i)
	}
	return v
}

// body is the code of every harness-owned function: observe, check, mint.
func (w *World) body(m *mat, args []reflect.Value) []reflect.Value {
	f := m.fn
	got := make([][]*Tok, len(f.Params))
	for i, p := range f.Params {
		path := m.pPaths[i]
		v := walkPath(args[path[0]], path[1:])
		if p.K.Group != "" {
			got[i] = make([]*Tok, 0, v.Len())
			for j := 0; j < v.Len(); j++ {
				got[i] = append(got[i], tokOf(v.Index(j)))
			}
		} else {
			got[i] = []*Tok{tokOf(v)}
		}
	}
	w.execs[f.ID]++
	exec := w.execs[f.ID]
	rec := &ExecRec{Fn: f.ID, Exec: exec, Op: w.curOp, Args: got}
	if w.curOp < len(w.ops) && w.ops[w.curOp] != nil {
		w.ops[w.curOp].Execs = append(w.ops[w.curOp].Execs, rec)
	}
	if w.trace {
		var parts []string
		for i, g := range got {
			parts = append(parts, fmt.Sprintf("%v=%v", f.Params[i], g))
		}
		w.logf("    enter f%d#%d %s", f.ID, exec, strings.Join(parts, " "))
	}
	if w.mon != nil {
		w.mon.onEnter(rec)
	}
	w.open = append(w.open, rec)
	// every execution advances the mock clock by a unique amount
	rec.Dur = time.Duration(len(w.open))*time.Microsecond + time.Duration(w.totalExecs()+1)*time.Millisecond
	w.advance(rec.Dur)

	if f.Reenter > 0 && f.Reenter-1 < len(w.h.Fns) {
		// re-entrant use: call back into the container while this function is executing
		if w.mon != nil {
			w.mon.reentrant = true
		}
		nf := w.h.Fns[f.Reenter-1]
		s := w.regScope[f.ID]
		var nerr error
		var npan interface{}
		if f.ReenterProvide {
			if exec == 1 {
				// (once: a second Provide of the same function would only be a duplicate)
				w.logf("    f%d re-enters the container: Provide(f%d) to s%d", f.ID, nf.ID, s)
				nerr, npan = guarded(func() error { return w.scopeProvide(s, w.materialize(nf, false).val) })
				w.logf("    nested Provide(f%d) -> %s panic=%v", nf.ID, classify(nerr), npan)
				if w.mon != nil {
					w.mon.onNestedProvide(nf, s, nerr == nil && npan == nil)
				}
				if nerr == nil && npan == nil {
					w.regScope[nf.ID] = s
				}
			}
		} else {
			w.logf("    f%d re-enters the container: Invoke(f%d) from s%d", f.ID, nf.ID, s)
			nerr, npan = guarded(func() error { return w.scopeInvoke(s, w.materialize(nf, false).val) })
			w.logf("    nested Invoke(f%d) -> %s panic=%v", nf.ID, classify(nerr), npan)
		}
		if npan != nil {
			if _, ok := npan.(*InjPanic); !ok {
				w.nestedPanic = npan
			}
		}
	}
	fault := f.faultAt(exec)
	if fault == "panic" || fault == "panicdigerr" {
		ip := &InjPanic{Fn: f.ID, Exec: exec}
		if fault == "panicdigerr" {
			ip.Inner = foreignDigError()
			if (f.ID+exec)%2 == 1 {
				// ... or another container's recovered panic: the PanicError reported for THIS panic
				// still has to carry this panic's value
				ip.Inner = foreignPanicError()
			}
		}
		rec.Outcome, rec.Pan = "panic", ip
		w.open = w.open[:len(w.open)-1]
		w.logf("    panic f%d#%d", f.ID, exec)
		if w.mon != nil {
			w.mon.onExit(rec)
		}
		panic(ip)
	}
	failed := (fault == "err" || fault == "digerr" || fault == "digcycerr" || fault == "rawdigerr") && f.HasErr
	rec.Toks = map[int][]*Tok{}
	outs := make([]reflect.Value, len(m.outs))
	for i, t := range m.outs {
		outs[i] = reflect.New(t).Elem()
	}
	var prevVal reflect.Value
	for i, r := range f.Results {
		var v reflect.Value
		if r.Flatten || r.Whole {
			v = reflect.MakeSlice(sliceTypeOf(r.K.T, r.Slice), 0, r.N)
			if r.N == 0 && (f.ID+exec)%2 == 0 {
				v = reflect.Zero(sliceTypeOf(r.K.T, r.Slice)) // a nil slice instead of an empty one
			}
			rec.Toks[i] = []*Tok{}
			for e := 0; e < r.N; e++ {
				tk := &Tok{f.ID, exec, i, e, failed}
				rec.Toks[i] = append(rec.Toks[i], tk)
				v = reflect.Append(v, mkVal(r.K.T, tk))
			}
		} else if r.Twin && i > 0 && f.Results[i-1].K == r.K && prevVal.IsValid() {
			rec.Toks[i] = rec.Toks[i-1]
			v = prevVal
		} else if r.Nil && r.K.T == tSliceV && r.K.Group != "" {
			rec.Toks[i] = []*Tok{nil}
			v = reflect.Zero(typeTab[tSliceV])
		} else {
			tk := &Tok{f.ID, exec, i, 0, failed}
			rec.Toks[i] = []*Tok{tk}
			v = mkVal(r.K.T, tk)
		}
		prevVal = v
		path := m.rPaths[i]
		walkPath(outs[path[0]], path[1:]).Set(v)
	}
	if f.HasErr {
		if failed {
			rec.Err = &InjErr{Fn: f.ID, Exec: exec}
			if fault == "digerr" || fault == "rawdigerr" {
				rec.Err.Inner = foreignDigError()
			}
			if fault == "digcycerr" {
				rec.Err.Inner = foreignCycleError()
				rec.Err.Cycle = true
			}
			switch {
			case fault == "rawdigerr":
				// "return nil, sub.Invoke(...)": another container's dig error, returned as it is
				rec.Err.Raw = true
				rec.ErrV = rec.Err.Inner
				outs[m.errIdx].Set(reflect.ValueOf(rec.ErrV))
			case f.ErrType == 1 && f.Pool == 0:
				outs[m.errIdx].Set(reflect.ValueOf(&TErr{Msg: rec.Err.Error()}))
			case fault == "err" && (f.ID+exec)%5 == 3:
				// "var e *MyErr; return nil, e": the error result holds a nil pointer
				rec.ErrV = (*TErr)(nil)
				outs[m.errIdx].Set(reflect.ValueOf(rec.ErrV))
			default:
				outs[m.errIdx].Set(reflect.ValueOf(rec.Err))
			}
		}
	}
	if failed {
		rec.Outcome = "err"
	} else {
		rec.Outcome = "ok"
	}
	w.open = w.open[:len(w.open)-1]
	w.logf("    exit f%d#%d %s", f.ID, exec, rec.Outcome)
	if w.mon != nil {
		w.mon.onExit(rec)
	}
	return outs
}

func (w *World) totalExecs() int {
	n := 0
	for _, v := range w.execs {
		n += v
	}
	return n
}

func (w *World) scopeProvide(s int, fn interface{}, opts ...dig.ProvideOption) error {
	if s == 0 {
		return w.c.Provide(fn, opts...)
	}
	return w.scopes[s].Provide(fn, opts...)
}
func (w *World) scopeDecorate(s int, fn interface{}, opts ...dig.DecorateOption) error {
	if s == 0 {
		return w.c.Decorate(fn, opts...)
	}
	return w.scopes[s].Decorate(fn, opts...)
}
func (w *World) scopeInvoke(s int, fn interface{}, opts ...dig.InvokeOption) error {
	if s == 0 {
		return w.c.Invoke(fn, opts...)
	}
	return w.scopes[s].Invoke(fn, opts...)
}

func guarded(f func() error) (err error, pan interface{}) {
	defer func() {
		if p := recover(); p != nil {
			pan = p
		}
	}()
	return f(), nil
}

const infoSentinel = 424242

func renderInputs(in []*dig.Input) []string {
	var out []string
	for _, i := range in {
		out = append(out, "in:"+i.String())
	}
	return out
}
func renderOutputs(o []*dig.Output) []string {
	var out []string
	for _, i := range o {
		out = append(out, "out:"+i.String())
	}
	return out
}

// Run executes the whole history.
func (w *World) Run() {
	for i := range w.h.Ops {
		w.step(i)
	}
	if w.mon != nil {
		w.mon.onEnd()
	}
}

func (w *World) step(i int) {
	op := &w.h.Ops[i]
	w.curOp, w.curKind = i, op.Kind
	rec := &OpRec{}
	for len(w.ops) <= i {
		w.ops = append(w.ops, nil)
	}
	w.ops[i] = rec
	w.open = w.open[:0]
	if op.Scope >= len(w.parent) {
		rec.Verdict = "skipped"
		return
	}
	switch op.Kind {
	case OpScope:
		name := fmt.Sprintf("s%d", len(w.parent))
		// scope names carry no meaning: equal, empty and hostile names must change nothing
		switch (w.h.Opts.RandSeed + int64(len(w.parent))) % 8 {
		case 5:
			name = ""
		case 6:
			name = "dup"
		case 7:
			name = "a\"b\\<c>\n`d`\x00"
		}
		var s *dig.Scope
		if op.Scope == 0 {
			s = w.c.Scope(name)
		} else {
			s = w.scopes[op.Scope].Scope(name)
		}
		w.parent = append(w.parent, op.Scope)
		w.scopes = append(w.scopes, s)
		rec.Verdict = VOk
		w.logf("op%d scope s%d parent s%d", i, len(w.parent)-1, op.Scope)
		if w.mon != nil {
			w.mon.onScope(op.Scope)
		}
	case OpProvide, OpDecorate, OpInvoke:
		w.stepCall(i, op, rec)
	case OpVisualize:
		var b bytes.Buffer
		var vopts []dig.VisualizeOption
		var verr error
		if op.VisErrOf > 0 && op.VisErrOf-1 < i && w.ops[op.VisErrOf-1] != nil {
			verr = w.ops[op.VisErrOf-1].Err
		}
		// callers commonly add context to the error of a failed Invoke before they look at it again: what is
		// handed to VisualizeError / CanVisualizeError is, in half of the cases, that error wrapped once more
		given := verr
		if verr != nil {
			switch (w.h.Opts.RandSeed + int64(i)) % 4 {
			case 2:
				given = fmt.Errorf("while starting the application: %w", verr)
			case 3:
				given = &ctxErr{"startup", verr}
			}
		}
		if op.VisErrOf > 0 && op.VisErrOf-1 < i && w.ops[op.VisErrOf-1] != nil {
			vopts = append(vopts, dig.VisualizeError(given))
		}
		err, pan := guarded(func() error { return dig.Visualize(w.c, &b, vopts...) })
		if op.VisErrOf > 0 {
			_, p2 := guarded(func() error { rec.VisOK = dig.CanVisualizeError(given); return nil })
			if pan == nil {
				pan = p2
			}
		}
		rec.Err, rec.Panic, rec.Dot = err, pan, b.String()
		rec.Verdict = classify(err)
		if pan != nil {
			rec.Verdict = VPanic
		}
		w.logf("op%d visualize -> %s (%d bytes)", i, rec.Verdict, b.Len())
		if w.mon != nil {
			w.mon.onVisualize(i, op, rec, verr)
		}
	case OpString:
		_, pan := guarded(func() error { rec.Str = w.c.String(); return nil })
		rec.Panic = pan
		rec.Verdict = VOk
		if pan != nil {
			rec.Verdict = VPanic
		}
		w.logf("op%d string -> %s", i, rec.Verdict)
		if w.mon != nil {
			w.mon.onString(i, rec)
		}
	}
}

func (w *World) stepCall(i int, op *Op, rec *OpRec) {
	var fnv interface{}
	var f *Fn
	if op.Garbage > 0 {
		fnv = w.h.Garbage[op.Garbage-1].Build(w)
	} else {
		f = w.h.Fns[op.Fn]
		viaOpt := op.NameOpt != "" || op.GroupOpt != ""
		if op.Invalid != "" {
			fnv = w.buildInvalid(f, op)
		} else {
			fnv = w.materialize(f, viaOpt).val
		}
	}
	if f != nil {
		w.regScope[f.ID] = op.Scope
	}
	if w.mon != nil && f != nil {
		w.mon.beforeCall(i, op, f)
	}
	var err error
	var pan interface{}
	switch op.Kind {
	case OpProvide:
		var opts []dig.ProvideOption
		if op.Garbage > 0 {
			opts = w.h.Garbage[op.Garbage-1].ProvideOpts()
		}
		// Export given once, explicitly as false, or twice: like every functional option the last one counts
		switch ev := (w.h.Opts.RandSeed + int64(i)) % 6; {
		case op.Export && ev == 0:
			opts = append(opts, dig.Export(false), dig.Export(true))
		case op.Export:
			opts = append(opts, dig.Export(true))
		case ev == 0 && op.Garbage == 0:
			opts = append(opts, dig.Export(false))
		case ev == 1 && op.Garbage == 0:
			opts = append(opts, dig.Export(true), dig.Export(false))
		}
		if op.NameOpt != "" {
			opts = append(opts, dig.Name(op.NameOpt))
		}
		if op.GroupOpt != "" {
			opts = append(opts, dig.Group(op.GroupOpt))
		}
		if len(op.As) > 0 {
			var as []interface{}
			for _, a := range op.As {
				as = append(as, asPtr(a))
			}
			opts = append(opts, dig.As(as...))
		}
		if f != nil && f.LocPC > 0 {
			opts = append(opts, dig.LocationForPC(reflect.ValueOf(LocFuncs[f.LocPC-1]).Pointer()))
		}
		opts = append(opts, invalidOpts(op.Invalid)...)
		info := new(dig.ProvideInfo)
		var before string
		if op.Info {
			if w.h.Opts.ReuseInfo {
				info = &w.pInfo
				before = fmt.Sprint(int64(info.ID), renderInputs(info.Inputs), renderOutputs(info.Outputs))
			} else {
				info.ID = infoSentinel
			}
			opts = append(opts, dig.FillProvideInfo(info))
		}
		if op.Callback && f != nil {
			opts = append(opts, dig.WithProviderCallback(w.callback(f, op.CbPanic)))
		}
		err, pan = guarded(func() error { return w.scopeProvide(op.Scope, fnv, opts...) })
		if op.Info {
			rec.InfoTouched = info.ID != infoSentinel || info.Inputs != nil || info.Outputs != nil
			if w.h.Opts.ReuseInfo {
				rec.InfoTouched = before != fmt.Sprint(int64(info.ID), renderInputs(info.Inputs), renderOutputs(info.Outputs))
			}
			rec.InfoID = int64(info.ID)
			rec.Info = append(renderInputs(info.Inputs), renderOutputs(info.Outputs)...)
		}
	case OpDecorate:
		var opts []dig.DecorateOption
		if op.Garbage > 0 {
			opts = w.h.Garbage[op.Garbage-1].DecorateOpts()
		}
		info := new(dig.DecorateInfo)
		var before string
		if op.Info {
			if w.h.Opts.ReuseInfo {
				info = &w.dInfo
				before = fmt.Sprint(int64(info.ID), renderInputs(info.Inputs), renderOutputs(info.Outputs))
			} else {
				info.ID = infoSentinel
			}
			opts = append(opts, dig.FillDecorateInfo(info))
		}
		if op.Callback && f != nil {
			opts = append(opts, dig.WithDecoratorCallback(w.callback(f, op.CbPanic)))
		}
		err, pan = guarded(func() error { return w.scopeDecorate(op.Scope, fnv, opts...) })
		if op.Info {
			rec.InfoTouched = info.ID != infoSentinel || info.Inputs != nil || info.Outputs != nil
			if w.h.Opts.ReuseInfo {
				rec.InfoTouched = before != fmt.Sprint(int64(info.ID), renderInputs(info.Inputs), renderOutputs(info.Outputs))
			}
			rec.InfoID = int64(info.ID)
			rec.Info = append(renderInputs(info.Inputs), renderOutputs(info.Outputs)...)
		}
	case OpInvoke:
		var opts []dig.InvokeOption
		info := new(dig.InvokeInfo)
		if op.Info {
			if w.h.Opts.ReuseInfo {
				info = &w.iInfo
			}
			opts = append(opts, dig.FillInvokeInfo(info))
		}
		err, pan = guarded(func() error { return w.scopeInvoke(op.Scope, fnv, opts...) })
		if op.Info {
			rec.InfoTouched = info.Inputs != nil
			rec.Info = renderInputs(info.Inputs)
		}
	}
	if w.nestedPanic != nil && pan == nil {
		pan = fmt.Sprintf("nested Invoke from inside a user function panicked: %v", w.nestedPanic)
	}
	w.nestedPanic = nil
	rec.Err, rec.Panic = err, pan
	rec.Verdict = classify(err)
	if pan != nil {
		rec.Verdict = VPanic
	}
	if err != nil && pan == nil {
		// rendering an error dig returned must not panic either
		_, fp := guarded(func() error { _ = err.Error(); _ = fmt.Sprintf("%+v", err); return nil })
		if fp != nil && !chainHasTypedNil(err) {
			// (a typed-nil pointer returned as an error by a user function panics in its own value-receiver
			// Error method: that is the user type's doing, not dig's)
			rec.Panic = fmt.Sprintf("formatting the returned error panicked: %v", fp)
			rec.Verdict = VPanic
		}
	}
	if w.trace {
		desc := "garbage"
		if f != nil {
			desc = f.Sig()
		}
		w.logf("op%d %s s%d %s -> %s (%v) panic=%v", i, op.Kind, op.Scope, desc, rec.Verdict, err, pan)
	}
	if w.mon != nil && f != nil {
		w.mon.afterCall(i, op, f, rec)
	}
}

// ctxErr: a caller-side wrapper type around the error of a failed Invoke.
type ctxErr struct {
	ctx string
	err error
}

func (e *ctxErr) Error() string { return e.ctx + ": " + e.err.Error() }
func (e *ctxErr) Unwrap() error { return e.err }

// InjCbPanic is the value a callback panics with (Op.CbPanic).
type InjCbPanic struct{ Fn int }

func (w *World) callback(f *Fn, panics bool) dig.Callback {
	return func(ci dig.CallbackInfo) {
		w.cbSeen[f.ID]++
		w.logf("    callback f%d name=%s err=%v runtime=%v", f.ID, ci.Name, ci.Error, ci.Runtime)
		if w.mon != nil {
			w.mon.onCallback(f, ci)
		}
		if panics && w.cbSeen[f.ID] == 1 {
			w.logf("    callback of f%d panics", f.ID)
			if w.mon != nil {
				w.mon.onCallbackPanic(f)
			}
			panic(&InjCbPanic{f.ID})
		}
	}
}
