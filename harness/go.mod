module digverif

go 1.20

require go.uber.org/dig v0.0.0

replace go.uber.org/dig => /repo
