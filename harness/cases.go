package main

import (
	"encoding/json"
	"fmt"
	"os"
	"path/filepath"
	"sort"
	"strings"
	"time"
)

func chunkSize(kind string) int {
	switch {
	case kind == "graphexh" || kind == "graphexh5":
		return 1
	case kind == "graphsamp":
		return 25
	case kind == "hist:bigshape":
		return 3
	case strings.HasPrefix(kind, "hist:largegraph") || strings.HasSuffix(kind, "graph"):
		return 12
	case strings.HasPrefix(kind, "hist:large") || strings.HasSuffix(kind, "big"):
		return 100
	case strings.HasPrefix(kind, "small"):
		return 20000
	case strings.HasPrefix(kind, "tiny") || strings.HasPrefix(kind, "difftiny"):
		return 10000
	case strings.HasPrefix(kind, "faultenum:"):
		return 1920
	}
	return 1500
}

// genCase: case idx of (kind, seed, prop). Deterministic.
func genCase(kind string, seed int64, prop string, idx int) *Case {
	switch {
	case kind == "hist:decoblock" || kind == "hist:bigshape":
		// structured families with generators of their own (extras.go), monitored like any history
		g, _ := extraGen(kind, seed, prop, idx)
		return g
	case strings.HasPrefix(kind, "hist:"):
		p := profileByName(kind[len("hist:"):])
		return &Case{Kind: kind, H: genHistory(caseRand(seed, kind, idx), p)}
	case strings.HasPrefix(kind, "faultenum:"):
		return genFaultEnum(kind, seed, idx)
	case strings.HasPrefix(kind, "pool:"):
		p := profileByName(kind[len("pool:"):])
		return &Case{Kind: kind, H: genPoolHistory(caseRand(seed, kind, idx), p)}
	}
	if g, ok := extraGen(kind, seed, prop, idx); ok {
		return g
	}
	panic("unknown case kind " + kind)
}

func shapeOf(h *History) uint64 {
	var parts []string
	for _, o := range h.Ops {
		s := fmt.Sprintf("%s%d", o.Kind[:1], o.Scope)
		if o.Export {
			s += "x"
		}
		if o.Invalid != "" {
			s += "!" + o.Invalid
		}
		if len(o.As) > 0 {
			s += "a"
		}
		if o.Kind == OpProvide || o.Kind == OpDecorate || o.Kind == OpInvoke {
			if o.Garbage == 0 {
				f := h.Fns[o.Fn]
				for _, p := range f.Params {
					switch {
					case p.K.Group != "" && p.Soft:
						s += "S"
					case p.K.Group != "":
						s += "G"
					case p.Optional:
						s += "O"
					case p.K.Name != "":
						s += "N"
					default:
						s += "P"
					}
				}
				s += ">"
				for _, r := range f.Results {
					switch {
					case r.Whole:
						s += "W"
					case r.Flatten:
						s += "F"
					case r.K.Group != "":
						s += "G"
					case r.K.Name != "":
						s += "N"
					default:
						s += "R"
					}
				}
				if len(f.Faults) > 0 {
					s += "f"
				}
			} else {
				s += "g"
			}
		}
		parts = append(parts, s)
	}
	parts = append(parts, fmt.Sprint(h.Opts.Defer, h.Opts.Recover, h.Opts.Dry))
	return hashStrings(parts)
}

// checkCase runs one case under all monitors.
func checkCase(prop string, c *Case, trace bool) *CaseResult {
	switch {
	case strings.HasPrefix(c.Kind, "hist:") || strings.HasPrefix(c.Kind, "small") || strings.HasPrefix(c.Kind, "tiny") || strings.HasPrefix(c.Kind, "pool:") || strings.HasPrefix(c.Kind, "faultenum:"):
		w := newWorld(c.H, true, trace)
		if prop == "C05" {
			w.mon.checkDepth = true
		}
		w.Run()
		res := &CaseResult{Viol: w.mon.viol, Stats: w.mon.stats, Situ: w.mon.situ, Shape: shapeOf(c.H), Log: w.log}
		if w.mon.maxFrames > 0 {
			res.Stats["max.frames"] = 0 // placeholder, merged as max below
		}
		res.Relevant = relevant(prop, res.Stats)
		return res
	}
	if r, ok := extraCheck(prop, c, trace); ok {
		return r
	}
	panic("unknown case kind " + c.Kind)
}

func relevant(prop string, st map[string]int) bool {
	switch prop {
	case "C01":
		return st["arg.provided"]+st["arg.decorated"] > 0
	case "C02":
		return st["exit.ok"] > 1
	case "C03":
		return st["enter"] > 0
	case "C04":
		return st["invoke.avail-no"]+st["invoke.avail-yes"]+st["arg.optzero.unavail"]+st["arg.nosrc"] > 0
	case "C05":
		return st["provide.ok"]+st["provide.cycle"] > 0
	case "C07":
		return st["exit.err"]+st["exit.panic"] > 0
	case "C08":
		return st["arg.crossscope"] > 0
	case "C09":
		return st["arg.named"]+st["arg.as"]+st["arg.group.hard"] > 0
	case "C10":
		return st["arg.group.hard"] > 0
	case "C11":
		return st["arg.group.soft"] > 0
	case "C12":
		return st["arg.decorated"]+st["arg.group.decorated"] > 0
	case "C13":
		return st["invoke.with-error"]+st["invoke.with-panic"]+st["provide.dig"]+st["provide.cycle"]+st["decorate.dig"]+st["invoke.dig"] > 0
	case "C18":
		return st["info.checked"] > 0
	case "C19":
		return st["dot.parsed"] > 0
	case "C20":
		return st["callback"] > 0
	}
	if st["diff.pairs"] > 0 {
		return st["diff.ops-compared"] > 0
	}
	return st["enter"] > 0
}

// relevantEvents: the number of property-relevant events (for the floor).
func relevantEvents(prop string, st map[string]int) int {
	switch prop {
	case "C01":
		return st["arg.provided"] + st["arg.decorated"] + st["arg.group.hard"]
	case "C02":
		return st["exit.ok"]
	case "C03":
		return st["enter"]
	case "C04":
		return st["invoke.avail-no"] + st["invoke.avail-yes"] + st["arg.optzero.unavail"]
	case "C05":
		return st["provide.ok"] + st["provide.cycle"] + st["invoke.cycle"] + st["graph.checked"]
	case "C07":
		return st["exit.err"] + st["exit.panic"]
	case "C08":
		return st["arg.crossscope"]
	case "C09":
		return st["arg.named"] + st["arg.as"] + st["arg.group.hard"] + st["provide.dig"]
	case "C10":
		return st["arg.group.hard"]
	case "C11":
		return st["arg.group.soft"]
	case "C12":
		return st["arg.decorated"] + st["arg.group.decorated"]
	case "C13":
		return st["invoke.with-error"] + st["invoke.with-panic"] + st["provide.dig"] + st["provide.cycle"] + st["decorate.dig"] + st["invoke.dig"]
	case "C18":
		return st["info.entries"]
	case "C19":
		return st["dot.parsed"]
	case "C20":
		return st["callback"]
	}
	return st["enter"] + st["diff.ops-compared"] + st["garbage.inputs"]
}

func checkFloor(prop, tier string, total *Summary) string {
	ev := relevantEvents(prop, total.Stats)
	floor := floorFor(prop, tier)
	if ev < floor {
		return fmt.Sprintf("only %d property-relevant events observed (floor %d)", ev, floor)
	}
	return ""
}

// witnessClass names the feature set of a (shrunk) witness so that a known
// finding does not mask a different failure of the same rule.
func witnessClass(c *Case, rule string) string {
	if rule == "C13.foreign-cycle-misclassified" {
		return "user-error-wraps-foreign-cycle-rejection"
	}
	if rule == "C13.errors-is-panics" {
		return "raw-foreign-dig-error"
	}
	if rule == "C13.rootcause-nested-dig-error" {
		// the rule itself pins the input (a user function's error wrapping another container's dig error) and
		// the observed wrong answer (the foreign error's root cause): one class
		return "user-error-wraps-foreign-dig-error"
	}
	if c == nil || c.H == nil {
		if c != nil {
			return c.Kind
		}
		return "none"
	}
	h := c.H
	feat := map[string]bool{}
	nScopes := 1
	for _, o := range h.Ops {
		switch o.Kind {
		case OpScope:
			nScopes++
		case OpDecorate:
			feat["decorate"] = true
		}
		if o.Export {
			feat["export"] = true
		}
		if o.Invalid != "" {
			feat["invalid:"+o.Invalid] = true
		}
		if len(o.As) > 0 {
			feat["as"] = true
		}
		if o.Garbage > 0 {
			feat["garbage"] = true
		}
		if o.Kind == OpProvide || o.Kind == OpDecorate || o.Kind == OpInvoke {
			if o.Garbage == 0 {
				f := h.Fns[o.Fn]
				for _, p := range f.Params {
					if p.K.Group != "" {
						feat["group"] = true
					}
					if p.Soft {
						feat["soft"] = true
					}
					if p.Optional {
						feat["optional"] = true
					}
				}
				for _, r := range f.Results {
					if r.K.Group != "" {
						feat["group"] = true
					}
				}
				if len(f.Faults) > 0 {
					feat["fault"] = true
				}
			}
		}
	}
	if nScopes > 1 {
		feat["scopes"] = true
	}
	if h.Opts.Defer {
		feat["defer"] = true
	}
	if h.Opts.Dry {
		feat["dry"] = true
	}
	var fs []string
	for k := range feat {
		fs = append(fs, k)
	}
	sort.Strings(fs)
	if len(fs) == 0 {
		return "plain"
	}
	return strings.Join(fs, "+")
}

// shrinkCase greedily removes parts of the history while the rule keeps firing.
func shrinkCase(prop string, c *Case, rule string) *Case {
	if c.H == nil {
		return c
	}
	fires := func(h *History) bool {
		cc := &Case{Kind: c.Kind, H: h, X: c.X}
		r := checkCase(prop, cc, false)
		for _, v := range r.Viol {
			if v.Rule == rule {
				return true
			}
		}
		return false
	}
	cur := c.H.Clone()
	budget := 600
	if n := len(c.H.Fns); n > 60 {
		// every attempt re-executes the history: big histories (profiles large*, genBigShape) get few
		budget = 600 * 60 / n
		if budget < 25 {
			budget = 25
		}
		if n > 300 {
			budget = 8
		}
	}
	progress := true
	for progress && budget > 0 {
		progress = false
		// drop ops, last first
		for i := len(cur.Ops) - 1; i >= 0 && budget > 0; i-- {
			if cur.Ops[i].Kind == OpScope {
				continue
			}
			t := cur.Clone()
			t.Ops = append(t.Ops[:i:i], t.Ops[i+1:]...)
			for j := range t.Ops {
				if t.Ops[j].VisErrOf-1 == i {
					t.Ops[j].VisErrOf = 0
				} else if t.Ops[j].VisErrOf-1 > i {
					t.Ops[j].VisErrOf--
				}
			}
			budget--
			if fires(t) {
				cur, progress = t, true
			}
		}
		// drop params / results / faults / encodings of functions still used
		used := map[int]bool{}
		for _, o := range cur.Ops {
			if o.Kind == OpProvide || o.Kind == OpDecorate || o.Kind == OpInvoke {
				used[o.Fn] = true
			}
		}
		for id := range cur.Fns {
			if !used[id] || budget <= 0 {
				continue
			}
			f := cur.Fns[id]
			if f.Pool > 0 {
				// a declared pool function has the signature it was compiled with
				continue
			}
			for pi := len(f.Params) - 1; pi >= 0 && budget > 0; pi-- {
				t := cur.Clone()
				tf := t.Fns[id]
				tf.Params = append(tf.Params[:pi:pi], tf.Params[pi+1:]...)
				tf.PEnc = nil
				budget--
				if fires(t) {
					cur, progress = t, true
					f = cur.Fns[id]
				}
			}
			for ri := len(f.Results) - 1; ri >= 0 && len(f.Results) > 1 && budget > 0; ri-- {
				t := cur.Clone()
				tf := t.Fns[id]
				tf.Results = append(tf.Results[:ri:ri], tf.Results[ri+1:]...)
				tf.REnc = nil
				budget--
				if fires(t) {
					cur, progress = t, true
					f = cur.Fns[id]
				}
			}
			if len(f.Faults) > 0 && budget > 0 {
				t := cur.Clone()
				t.Fns[id].Faults = nil
				budget--
				if fires(t) {
					cur, progress = t, true
				}
			}
			if (f.PEnc != nil || f.REnc != nil || f.Variadic) && budget > 0 {
				t := cur.Clone()
				t.Fns[id].PEnc, t.Fns[id].REnc, t.Fns[id].Variadic = nil, nil, false
				budget--
				if fires(t) {
					cur, progress = t, true
				}
			}
		}
		// simplify op options
		for i := range cur.Ops {
			o := cur.Ops[i]
			if (o.Callback || o.Info || o.Export) && budget > 0 {
				for _, which := range []string{"cb", "info", "export"} {
					t := cur.Clone()
					switch which {
					case "cb":
						if !o.Callback {
							continue
						}
						t.Ops[i].Callback = false
					case "info":
						if !o.Info {
							continue
						}
						t.Ops[i].Info = false
					case "export":
						if !o.Export {
							continue
						}
						t.Ops[i].Export = false
					}
					budget--
					if fires(t) {
						cur, progress = t, true
						o = cur.Ops[i]
					}
				}
			}
		}
	}
	return &Case{Kind: c.Kind, H: cur, X: c.X}
}

func writeEvidence(prop, tier string, seed int64, root string, jobs []JobSpec, total *Summary, distinct int, wall time.Duration, nviol int, inconclusive []string, floorMsg string) {
	lv := levelFor(prop)
	var samples []interface{}
	for _, c := range total.Samples {
		if c.H != nil {
			samples = append(samples, map[string]interface{}{"kind": c.Kind, "history": c.H.Describe()})
		} else {
			samples = append(samples, c)
		}
		if len(samples) >= 4 {
			break
		}
	}
	if len(samples) == 0 {
		samples = append(samples, "no sample recorded")
	}
	var situ []string
	for k := range total.Situ {
		situ = append(situ, k)
	}
	sort.Strings(situ)
	jl := []string{}
	for _, j := range jobs {
		jl = append(jl, fmt.Sprintf("%s x%d", j.Kind, j.N))
	}
	cov := map[string]interface{}{
		"evaluations":                total.Evaluations,
		"distinct_nontrivial":        distinct,
		"rule":                       ruleText(prop),
		"samples":                    samples,
		"jobs":                       jl,
		"property_relevant_cases":    total.Relevant,
		"property_relevant_events":   relevantEvents(prop, total.Stats),
		"events_by_kind":             total.Stats,
		"resolution_situations_seen": situ,
		"rules_fired":                total.RuleCounts,
		"inconclusive":               inconclusive,
		"floor":                      floorMsg,
	}
	if exhaustiveFor(prop, tier) != "" {
		cov["exhaustive_subspace"] = exhaustiveFor(prop, tier)
	}
	ev := map[string]interface{}{
		"property_id": prop,
		"tier":        tier,
		"seed":        seed,
		"level":       lv,
		"coverage":    cov,
		"assumptions": assumptionsFor(prop),
		"wall_s":      wall.Seconds(),
		"violations":  nviol,
	}
	b, _ := json.MarshalIndent(ev, "", " ")
	os.MkdirAll(filepath.Join(root, "evidence"), 0o755)
	os.WriteFile(filepath.Join(root, "evidence", prop+".json"), b, 0o644)
}
