package main

import (
	"reflect"
)

func bindPool(idx int, m *mat, body func([]reflect.Value) []reflect.Value) interface{} { return nil }
func poolName(idx int) string                                                          { return "" }

func (m *Monitor) checkDot(i int, op *Op, rec *OpRec, verr error) {
	if _, err := ParseDot(rec.Dot); err != nil {
		m.violate("C19", "C19.invalid-dot", "Visualize output is not valid DOT: %v", err)
	}
	m.stats["dot.parsed"]++
}
