package main

import (
	"reflect"

	"go.uber.org/dig"
)

// GarbageSpec: C14 grammar input (see garbage.go).
type GarbageSpec struct {
	Seed int64 `json:"seed"`
}

func (g GarbageSpec) Build(w *World) interface{}       { return nil }
func (g GarbageSpec) ProvideOpts() []dig.ProvideOption { return nil }
func (g GarbageSpec) String() string                   { return "garbage" }

func bindPool(idx int, m *mat, body func([]reflect.Value) []reflect.Value) interface{} { return nil }
func poolName(idx int) string                                                          { return "" }

func (m *Monitor) checkDot(i int, op *Op, rec *OpRec, verr error) {
	if _, err := ParseDot(rec.Dot); err != nil {
		m.violate("C19", "C19.invalid-dot", "Visualize output is not valid DOT: %v", err)
	}
	m.stats["dot.parsed"]++
}

