package main

import (
	"fmt"
	"math/rand"
	"strings"
)

// Bounded-exhaustive histories ("tiny"): EVERY sequence of at most tinyMaxLen API calls drawn from a
// fixed alphabet of 43 calls over two types, one value group and a root->child scope pair, with the
// child scope created either first or just before its first use; each sequence is followed by an
// observation suffix that invokes every key from both scopes. Random generation reaches these
// sequences only with some probability; this job reaches all of them.

type tinyLetter struct {
	kind    string
	scope   int
	export  bool
	params  []Param
	results []Res
	name    string
}

var (
	tinyA  = Key{T: 0}
	tinyB  = Key{T: 1}
	tinyGA = Key{T: 0, Group: "g1"}
)

var tinyAlphabet = buildTinyAlphabet()

const tinyMaxLen = 4

func buildTinyAlphabet() []tinyLetter {
	type sig struct {
		name string
		p    []Param
		r    []Res
	}
	provides := []sig{
		{"()->A", nil, []Res{{K: tinyA}}},
		{"()->B", nil, []Res{{K: tinyB}}},
		{"(A)->B", []Param{{K: tinyA}}, []Res{{K: tinyB}}},
		{"(B)->A", []Param{{K: tinyB}}, []Res{{K: tinyA}}},
		{"(A?)->B", []Param{{K: tinyA, Optional: true}}, []Res{{K: tinyB}}},
		{"()->A@g", nil, []Res{{K: tinyGA}}},
		{"([]A@g)->B", []Param{{K: tinyGA}}, []Res{{K: tinyB}}},
		{"([]A@g~)->B", []Param{{K: tinyGA, Soft: true}}, []Res{{K: tinyB}}},
		{"(B)->A@g", []Param{{K: tinyB}}, []Res{{K: tinyGA}}},
	}
	decorates := []sig{
		{"dec(A)->A", []Param{{K: tinyA}}, []Res{{K: tinyA}}},
		{"dec()->A", nil, []Res{{K: tinyA}}},
		{"dec(B)->A", []Param{{K: tinyB}}, []Res{{K: tinyA}}},
		{"dec([]A@g)->[]A@g", []Param{{K: tinyGA}}, []Res{{K: tinyGA, Whole: true, N: 2}}},
	}
	invokes := []sig{
		{"inv(A)", []Param{{K: tinyA}}, nil},
		{"inv(B)", []Param{{K: tinyB}}, nil},
		{"inv(A?)", []Param{{K: tinyA, Optional: true}}, nil},
		{"inv([]A@g)", []Param{{K: tinyGA}}, nil},
	}
	var out []tinyLetter
	for _, s := range provides {
		out = append(out, tinyLetter{OpProvide, 0, false, s.p, s.r, s.name + "@root"})
		out = append(out, tinyLetter{OpProvide, 1, false, s.p, s.r, s.name + "@child"})
		out = append(out, tinyLetter{OpProvide, 1, true, s.p, s.r, s.name + "@child+export"})
	}
	for _, s := range decorates {
		out = append(out, tinyLetter{OpDecorate, 0, false, s.p, s.r, s.name + "@root"})
		out = append(out, tinyLetter{OpDecorate, 1, false, s.p, s.r, s.name + "@child"})
	}
	for _, s := range invokes {
		out = append(out, tinyLetter{OpInvoke, 0, false, s.p, s.r, s.name + "@root"})
		out = append(out, tinyLetter{OpInvoke, 1, false, s.p, s.r, s.name + "@child"})
	}
	return out
}

func tinyInvokeLetters() []int {
	var out []int
	for i, l := range tinyAlphabet {
		if l.kind == OpInvoke {
			out = append(out, i)
		}
	}
	return out
}

// tinySpaceLen: number of histories with exactly n letters (x2: child scope created early / late).
func tinySpaceLen(n int) int { return ipow(len(tinyAlphabet), n) * 2 }

func tinyTotal(maxLen int) int {
	t := 0
	for n := 1; n <= maxLen; n++ {
		t += tinySpaceLen(n)
	}
	return t
}

// decodeTiny maps an enumeration index to (letters, late).
func decodeTiny(idx int) ([]int, bool) {
	n := 1
	for ; idx >= tinySpaceLen(n); n++ {
		idx -= tinySpaceLen(n)
	}
	late := idx%2 == 1
	idx /= 2
	letters := make([]int, n)
	for i := n - 1; i >= 0; i-- {
		letters[i] = idx % len(tinyAlphabet)
		idx /= len(tinyAlphabet)
	}
	return letters, late
}

// buildTiny materialises the history for a letter sequence. Options other than the enumerated ones
// (Defer, Recover, encodings) are drawn from r.
func buildTiny(letters []int, late bool, r *rand.Rand, callbacks bool) *History {
	h := &History{}
	h.Opts.Defer = r.Intn(4) == 0
	h.Opts.Recover = r.Intn(2) == 0
	h.Opts.RandSeed = r.Int63n(1 << 30)
	var names []string
	created := !late
	if created {
		h.Ops = append(h.Ops, Op{Kind: OpScope, Scope: 0})
	}
	emit := func(li int) {
		l := tinyAlphabet[li]
		if l.scope == 1 && !created {
			created = true
			h.Ops = append(h.Ops, Op{Kind: OpScope, Scope: 0})
		}
		f := &Fn{ID: len(h.Fns), Params: append([]Param(nil), l.params...), Results: append([]Res(nil), l.results...)}
		if len(f.Params) > 0 && r.Intn(4) == 0 {
			f.PEnc = defaultEnc(len(f.Params), true)
		}
		h.Fns = append(h.Fns, f)
		op := Op{Kind: l.kind, Scope: l.scope, Fn: f.ID, Export: l.export}
		if callbacks && l.kind != OpInvoke {
			op.Callback = true
		}
		h.Ops = append(h.Ops, op)
	}
	for _, li := range letters {
		emit(li)
		names = append(names, tinyAlphabet[li].name)
	}
	if !created {
		created = true
		h.Ops = append(h.Ops, Op{Kind: OpScope, Scope: 0})
	}
	for _, li := range tinyInvokeLetters() {
		emit(li)
	}
	h.Note = fmt.Sprintf("tiny late=%v: %s", late, strings.Join(names, " ; "))
	return h
}

func genTiny(idx int, r *rand.Rand) *History {
	letters, late := decodeTiny(idx)
	return buildTiny(letters, late, r, false)
}

// ---- tiny fault enumeration: every history of at most 3 letters x every single fault ----

const tinyFaultLen = 3
const tinyFaultSlots = tinyFaultLen * 8 // (letter position) x {err, panic, err wrapping a foreign dig error, panic with such an error} x {first execution, always}

func tinyFaultTotal() int { return tinyTotal(tinyFaultLen) * tinyFaultSlots }

func genTinyFault(idx int, r *rand.Rand) *History {
	base, slot := idx/tinyFaultSlots, idx%tinyFaultSlots
	letters, late := decodeTiny(base)
	pos, fm := slot/8, slot%8
	if pos >= len(letters) {
		return nil
	}
	h := buildTiny(letters, late, r, true)
	// the Fn of the letter at position pos
	n := -1
	var target *Fn
	for _, op := range h.Ops {
		if op.Kind == OpScope {
			continue
		}
		n++
		if n == pos {
			target = h.Fns[op.Fn]
			break
		}
	}
	fk := "err"
	switch {
	case fm >= 6:
		fk = "panicdigerr"
	case fm >= 4:
		fk = "digerr"
		target.HasErr = true
	case fm >= 2:
		fk = "panic"
	default:
		target.HasErr = true
	}
	if fm%2 == 0 {
		target.Faults = map[int]string{1: fk}
	} else {
		target.Faults = map[int]string{0: fk}
	}
	// retries: the observation suffix twice more
	var suffix []Op
	for _, op := range h.Ops[len(h.Ops)-len(tinyInvokeLetters()):] {
		suffix = append(suffix, op)
	}
	h.Ops = append(h.Ops, suffix...)
	h.Ops = append(h.Ops, suffix...)
	h.Note += fmt.Sprintf(" ; fault %s on letter %d mode %d", fk, pos, fm%2)
	return h
}
