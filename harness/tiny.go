package main

import (
	"fmt"
	"math/rand"
	"strings"
)

// Bounded-exhaustive histories ("tiny"): EVERY sequence of at most tinyMaxLen API calls drawn from a
// fixed alphabet of 43 calls over two types, one value group and a root->child scope pair, with the
// child scope created either first or just before its first use; each sequence is followed by an
// observation suffix that invokes every key from both scopes. Random generation reaches these
// sequences only with some probability; this job reaches all of them.

type tinyLetter struct {
	kind    string
	scope   int
	export  bool
	params  []Param
	results []Res
	name    string
}

var (
	tinyA  = Key{T: 0}
	tinyB  = Key{T: 1}
	tinyGA = Key{T: 0, Group: "g1"}
)

var tinyAlphabet = buildTinyAlphabet()

const tinyMaxLen = 4

func buildTinyAlphabet() []tinyLetter {
	type sig struct {
		name string
		p    []Param
		r    []Res
	}
	provides := []sig{
		{"()->A", nil, []Res{{K: tinyA}}},
		{"()->B", nil, []Res{{K: tinyB}}},
		{"(A)->B", []Param{{K: tinyA}}, []Res{{K: tinyB}}},
		{"(B)->A", []Param{{K: tinyB}}, []Res{{K: tinyA}}},
		{"(A?)->B", []Param{{K: tinyA, Optional: true}}, []Res{{K: tinyB}}},
		{"()->A@g", nil, []Res{{K: tinyGA}}},
		{"([]A@g)->B", []Param{{K: tinyGA}}, []Res{{K: tinyB}}},
		{"([]A@g~)->B", []Param{{K: tinyGA, Soft: true}}, []Res{{K: tinyB}}},
		{"(B)->A@g", []Param{{K: tinyB}}, []Res{{K: tinyGA}}},
	}
	decorates := []sig{
		{"dec(A)->A", []Param{{K: tinyA}}, []Res{{K: tinyA}}},
		{"dec()->A", nil, []Res{{K: tinyA}}},
		{"dec(B)->A", []Param{{K: tinyB}}, []Res{{K: tinyA}}},
		{"dec([]A@g)->[]A@g", []Param{{K: tinyGA}}, []Res{{K: tinyGA, Whole: true, N: 2}}},
	}
	invokes := []sig{
		{"inv(A)", []Param{{K: tinyA}}, nil},
		{"inv(B)", []Param{{K: tinyB}}, nil},
		{"inv(A?)", []Param{{K: tinyA, Optional: true}}, nil},
		{"inv([]A@g)", []Param{{K: tinyGA}}, nil},
	}
	var out []tinyLetter
	for _, s := range provides {
		out = append(out, tinyLetter{OpProvide, 0, false, s.p, s.r, s.name + "@root"})
		out = append(out, tinyLetter{OpProvide, 1, false, s.p, s.r, s.name + "@child"})
		out = append(out, tinyLetter{OpProvide, 1, true, s.p, s.r, s.name + "@child+export"})
	}
	for _, s := range decorates {
		out = append(out, tinyLetter{OpDecorate, 0, false, s.p, s.r, s.name + "@root"})
		out = append(out, tinyLetter{OpDecorate, 1, false, s.p, s.r, s.name + "@child"})
	}
	for _, s := range invokes {
		out = append(out, tinyLetter{OpInvoke, 0, false, s.p, s.r, s.name + "@root"})
		out = append(out, tinyLetter{OpInvoke, 1, false, s.p, s.r, s.name + "@child"})
	}
	return out
}

func tinyInvokeLetters() []int {
	var out []int
	for i, l := range tinyAlphabet {
		if l.kind == OpInvoke {
			out = append(out, i)
		}
	}
	return out
}

// tinySpaceLen: number of histories with exactly n letters (x2: child scope created early / late).
func tinySpaceLen(n int) int { return ipow(len(tinyAlphabet), n) * 2 }

func tinyTotal(maxLen int) int {
	t := 0
	for n := 1; n <= maxLen; n++ {
		t += tinySpaceLen(n)
	}
	return t
}

// decodeTiny maps an enumeration index to (letters, late).
func decodeTiny(idx int) ([]int, bool) {
	n := 1
	for ; idx >= tinySpaceLen(n); n++ {
		idx -= tinySpaceLen(n)
	}
	late := idx%2 == 1
	idx /= 2
	letters := make([]int, n)
	for i := n - 1; i >= 0; i-- {
		letters[i] = idx % len(tinyAlphabet)
		idx /= len(tinyAlphabet)
	}
	return letters, late
}

// buildTiny materialises the history for a letter sequence. Options other than the enumerated ones
// (Defer, Recover, encodings) are drawn from r.
func buildTiny(letters []int, late bool, r *rand.Rand, callbacks bool) *History {
	h := &History{}
	h.Opts.Defer = r.Intn(4) == 0
	h.Opts.Recover = r.Intn(2) == 0
	h.Opts.RandSeed = r.Int63n(1 << 30)
	h.Opts.OptOrder = r.Int63n(1 << 30)
	var names []string
	created := !late
	if created {
		h.Ops = append(h.Ops, Op{Kind: OpScope, Scope: 0})
	}
	emit := func(li int) {
		l := tinyAlphabet[li]
		if l.scope == 1 && !created {
			created = true
			h.Ops = append(h.Ops, Op{Kind: OpScope, Scope: 0})
		}
		f := &Fn{ID: len(h.Fns), Params: append([]Param(nil), l.params...), Results: append([]Res(nil), l.results...)}
		if len(f.Params) > 0 && r.Intn(4) == 0 {
			f.PEnc = defaultEnc(len(f.Params), true)
		}
		h.Fns = append(h.Fns, f)
		op := Op{Kind: l.kind, Scope: l.scope, Fn: f.ID, Export: l.export}
		if callbacks && l.kind != OpInvoke {
			op.Callback = true
		}
		h.Ops = append(h.Ops, op)
	}
	for _, li := range letters {
		emit(li)
		names = append(names, tinyAlphabet[li].name)
	}
	if !created {
		created = true
		h.Ops = append(h.Ops, Op{Kind: OpScope, Scope: 0})
	}
	for _, li := range tinyInvokeLetters() {
		emit(li)
	}
	h.Note = fmt.Sprintf("tiny late=%v: %s", late, strings.Join(names, " ; "))
	return h
}

func genTiny(idx int, r *rand.Rand) *History {
	letters, late := decodeTiny(idx)
	return buildTiny(letters, late, r, false)
}

// ---- tiny fault enumeration: every history of at most 3 letters x every single fault ----

const tinyFaultLen = 3
const tinyFaultSlots = tinyFaultLen * 8 // (letter position) x {err, panic, err wrapping a foreign dig error, panic with such an error} x {first execution, always}

func tinyFaultTotal() int { return tinyTotal(tinyFaultLen) * tinyFaultSlots }

func genTinyFault(idx int, r *rand.Rand) *History {
	base, slot := idx/tinyFaultSlots, idx%tinyFaultSlots
	letters, late := decodeTiny(base)
	pos, fm := slot/8, slot%8
	if pos >= len(letters) {
		return nil
	}
	h := buildTiny(letters, late, r, true)
	// the Fn of the letter at position pos
	n := -1
	var target *Fn
	for _, op := range h.Ops {
		if op.Kind == OpScope {
			continue
		}
		n++
		if n == pos {
			target = h.Fns[op.Fn]
			break
		}
	}
	fk := "err"
	switch {
	case fm >= 6:
		fk = "panicdigerr"
	case fm >= 4:
		fk = "digerr"
		target.HasErr = true
	case fm >= 2:
		fk = "panic"
	default:
		target.HasErr = true
	}
	if fm%2 == 0 {
		target.Faults = map[int]string{1: fk}
	} else {
		target.Faults = map[int]string{0: fk}
	}
	// retries: the observation suffix twice more
	var suffix []Op
	for _, op := range h.Ops[len(h.Ops)-len(tinyInvokeLetters()):] {
		suffix = append(suffix, op)
	}
	h.Ops = append(h.Ops, suffix...)
	h.Ops = append(h.Ops, suffix...)
	h.Note += fmt.Sprintf(" ; fault %s on letter %d mode %d", fk, pos, fm%2)
	return h
}

// ---- tinyscope: bounded-exhaustive histories over a 4-scope tree with EXPLICIT scope creation ----
//
// Logical scopes: 0 root, 1 child of root, 2 child of 1 (grandchild), 3 second child of root. The
// alphabet holds one letter per scope creation, so every order of scope creations relative to the
// registrations and invocations is enumerated (C08, C16: "created before or after"). A sequence that
// uses a scope before creating it, or creates a scope twice / before its parent, is not a history and
// is skipped. Scopes still missing at the end are created before the observation suffix, which invokes
// every key from all four scopes.

var tinyScopeParent = []int{-1, 0, 1, 0}

type tinySLetter struct {
	tinyLetter
	mk int // > 0: create logical scope mk
}

var tinySAlphabet = buildTinySAlphabet()

const tinySMaxLen = 6

func buildTinySAlphabet() []tinySLetter {
	var out []tinySLetter
	for s := 1; s <= 3; s++ {
		out = append(out, tinySLetter{tinyLetter{kind: OpScope, name: fmt.Sprintf("mk-s%d", s)}, s})
	}
	type sig struct {
		name string
		p    []Param
		r    []Res
	}
	provides := []sig{
		{"()->A", nil, []Res{{K: tinyA}}},
		{"(A)->B", []Param{{K: tinyA}}, []Res{{K: tinyB}}},
		{"()->A@g", nil, []Res{{K: tinyGA}}},
	}
	for _, sg := range provides {
		for s := 0; s <= 3; s++ {
			out = append(out, tinySLetter{tinyLetter{OpProvide, s, false, sg.p, sg.r, fmt.Sprintf("%s@s%d", sg.name, s)}, 0})
		}
		for _, s := range []int{2, 3} {
			out = append(out, tinySLetter{tinyLetter{OpProvide, s, true, sg.p, sg.r, fmt.Sprintf("%s@s%d+export", sg.name, s)}, 0})
		}
	}
	for _, s := range []int{0, 1, 2} {
		out = append(out, tinySLetter{tinyLetter{OpDecorate, s, false, []Param{{K: tinyA}}, []Res{{K: tinyA}}, fmt.Sprintf("dec(A)->A@s%d", s)}, 0})
	}
	for _, s := range []int{0, 1} {
		out = append(out, tinySLetter{tinyLetter{OpDecorate, s, false, []Param{{K: tinyGA}}, []Res{{K: tinyGA, Whole: true, N: 2}}, fmt.Sprintf("dec([]A@g)@s%d", s)}, 0})
	}
	for _, s := range []int{0, 2, 3} {
		out = append(out, tinySLetter{tinyLetter{OpInvoke, s, false, []Param{{K: tinyB}}, nil, fmt.Sprintf("inv(B)@s%d", s)}, 0})
		out = append(out, tinySLetter{tinyLetter{OpInvoke, s, false, []Param{{K: tinyGA}}, nil, fmt.Sprintf("inv([]A@g)@s%d", s)}, 0})
	}
	return out
}

// Only sequences that are histories are enumerated: tinySCount(n, created) is the number of valid
// continuations of length n when the scopes in the bit set created exist; an index is unranked letter
// by letter with these counts.
var tinySMemo = map[[2]int]int{}

func tinySValid(l tinySLetter, created int) (int, bool) {
	if l.mk > 0 {
		if created&(1<<uint(l.mk)) != 0 || created&(1<<uint(tinyScopeParent[l.mk])) == 0 {
			return created, false
		}
		return created | 1<<uint(l.mk), true
	}
	return created, created&(1<<uint(l.scope)) != 0
}

func tinySCount(n, created int) int {
	if n == 0 {
		return 1
	}
	k := [2]int{n, created}
	if v, ok := tinySMemo[k]; ok {
		return v
	}
	t := 0
	for _, l := range tinySAlphabet {
		if nc, ok := tinySValid(l, created); ok {
			t += tinySCount(n-1, nc)
		}
	}
	tinySMemo[k] = t
	return t
}

func tinySTotal(maxLen int) int {
	t := 0
	for n := 1; n <= maxLen; n++ {
		t += tinySCount(n, 1)
	}
	return t
}

func decodeTinyS(idx int) []int {
	n := 1
	for ; idx >= tinySCount(n, 1); n++ {
		idx -= tinySCount(n, 1)
	}
	created := 1
	letters := make([]int, 0, n)
	for pos := 0; pos < n; pos++ {
		for li, l := range tinySAlphabet {
			nc, ok := tinySValid(l, created)
			if !ok {
				continue
			}
			c := tinySCount(n-pos-1, nc)
			if idx < c {
				letters = append(letters, li)
				created = nc
				break
			}
			idx -= c
		}
	}
	return letters
}

// genTinyS returns nil for sequences that are not histories.
func genTinyS(idx int, r *rand.Rand) *History {
	letters := decodeTinyS(idx)
	h := &History{}
	h.Opts.Defer = r.Intn(4) == 0
	h.Opts.Recover = r.Intn(2) == 0
	h.Opts.RandSeed = r.Int63n(1 << 30)
	h.Opts.OptOrder = r.Int63n(1 << 30)
	index := map[int]int{0: 0} // logical scope -> creation index
	mk := func(s int) bool {
		if _, ok := index[s]; ok {
			return false
		}
		pi, ok := index[tinyScopeParent[s]]
		if !ok {
			return false
		}
		index[s] = len(index)
		h.Ops = append(h.Ops, Op{Kind: OpScope, Scope: pi})
		return true
	}
	emit := func(l tinyLetter) bool {
		si, ok := index[l.scope]
		if !ok {
			return false
		}
		f := &Fn{ID: len(h.Fns), Params: append([]Param(nil), l.params...), Results: append([]Res(nil), l.results...)}
		h.Fns = append(h.Fns, f)
		h.Ops = append(h.Ops, Op{Kind: l.kind, Scope: si, Fn: f.ID, Export: l.export})
		return true
	}
	var names []string
	for _, li := range letters {
		l := tinySAlphabet[li]
		names = append(names, l.name)
		if l.mk > 0 {
			if !mk(l.mk) {
				return nil
			}
			continue
		}
		if !emit(l.tinyLetter) {
			return nil
		}
	}
	for s := 1; s <= 3; s++ {
		mk(s)
	}
	for s := 0; s <= 3; s++ {
		for _, k := range []Key{tinyA, tinyB, tinyGA} {
			emit(tinyLetter{kind: OpInvoke, scope: s, params: []Param{{K: k}}})
		}
	}
	h.Note = "tinyscope: " + strings.Join(names, " ; ")
	return h
}

// ---- tinykeys: bounded-exhaustive histories over a key-identity alphabet (C09, C10) ----
//
// One carrier type A (V0), the interface I (I0) it implements, the name "n1" and the group "g1": every
// way of providing A (unnamed, named, grouped, each also with As(I)), in the root or the child, and every
// way of asking for it (A, A/n1, I, I/n1, []A@g1, []I@g1, each also optional where that exists) from both
// scopes. Every sequence of at most 4 calls; repeated letters are the duplicates.

var (
	tinyKA   = Key{T: 0}
	tinyKAn  = Key{T: 0, Name: "n1"}
	tinyKAg  = Key{T: 0, Group: "g1"}
	tinyKI   = Key{T: tIfaceBase}
	tinyKIn  = Key{T: tIfaceBase, Name: "n1"}
	tinyKIg  = Key{T: tIfaceBase, Group: "g1"}
	tinyKAll = buildTinyKAlphabet()
)

type tinyKLetter struct {
	tinyLetter
	as       []int
	nameOpt  string
	groupOpt string
}

func buildTinyKAlphabet() []tinyKLetter {
	var out []tinyKLetter
	type prov struct {
		name     string
		r        Res
		as       []int
		nameOpt  string
		groupOpt string
	}
	provs := []prov{
		{"()->A", Res{K: tinyKA}, nil, "", ""},
		{"()->A/n1", Res{K: tinyKAn}, nil, "", ""},
		{"()->A@g1", Res{K: tinyKAg}, nil, "", ""},
		{"()->A as I", Res{K: tinyKA}, []int{tIfaceBase}, "", ""},
		{"()->A/n1 as I", Res{K: tinyKAn}, []int{tIfaceBase}, "n1", ""},
		{"()->A@g1 as I", Res{K: tinyKAg}, []int{tIfaceBase}, "", "g1"},
	}
	for _, p := range provs {
		for s := 0; s <= 1; s++ {
			out = append(out, tinyKLetter{tinyLetter{OpProvide, s, false, nil, []Res{p.r}, fmt.Sprintf("%s@s%d", p.name, s)}, p.as, p.nameOpt, p.groupOpt})
		}
	}
	for _, k := range []Key{tinyKA, tinyKAn, tinyKI, tinyKIn, tinyKAg, tinyKIg} {
		for s := 0; s <= 1; s++ {
			out = append(out, tinyKLetter{tinyLetter{OpInvoke, s, false, []Param{{K: k}}, nil, fmt.Sprintf("inv(%v)@s%d", k, s)}, nil, "", ""})
		}
	}
	return out
}

const tinyKMaxLen = 4

func tinyKTotal(maxLen int) int {
	t := 0
	for n := 1; n <= maxLen; n++ {
		t += ipow(len(tinyKAll), n) * 2
	}
	return t
}

func genTinyK(idx int, r *rand.Rand) *History {
	n := 1
	for ; idx >= ipow(len(tinyKAll), n)*2; n++ {
		idx -= ipow(len(tinyKAll), n) * 2
	}
	late := idx%2 == 1
	idx /= 2
	letters := make([]int, n)
	for i := n - 1; i >= 0; i-- {
		letters[i] = idx % len(tinyKAll)
		idx /= len(tinyKAll)
	}
	h := &History{}
	h.Opts.Defer = r.Intn(4) == 0
	h.Opts.Recover = r.Intn(2) == 0
	h.Opts.RandSeed = r.Int63n(1 << 30)
	h.Opts.OptOrder = r.Int63n(1 << 30)
	created := !late
	if created {
		h.Ops = append(h.Ops, Op{Kind: OpScope, Scope: 0})
	}
	var names []string
	emit := func(l tinyKLetter) {
		if l.scope == 1 && !created {
			created = true
			h.Ops = append(h.Ops, Op{Kind: OpScope, Scope: 0})
		}
		f := &Fn{ID: len(h.Fns), Params: append([]Param(nil), l.params...), Results: append([]Res(nil), l.results...)}
		h.Fns = append(h.Fns, f)
		h.Ops = append(h.Ops, Op{Kind: l.kind, Scope: l.scope, Fn: f.ID, As: append([]int(nil), l.as...), NameOpt: l.nameOpt, GroupOpt: l.groupOpt})
	}
	for _, li := range letters {
		emit(tinyKAll[li])
		names = append(names, tinyKAll[li].name)
	}
	if !created {
		h.Ops = append(h.Ops, Op{Kind: OpScope, Scope: 0})
		created = true
	}
	for _, l := range tinyKAll {
		if l.kind == OpInvoke {
			emit(l)
		}
	}
	h.Note = fmt.Sprintf("tinykeys late=%v: %s", late, strings.Join(names, " ; "))
	return h
}

// ---- layered decoration blocks (C16, C12): a family the random profiles reach too rarely -------------------
//
// genDecoBlock draws one history of the family "a value group decorated at several levels of a scope chain and
// consumed from several levels": a chain of 3-4 scopes (sometimes with a side branch), 1-3 feeders of group G in
// the upper scopes, group decorators of G in two or three distinct scopes of the chain, 2-4 consumers of G
// (constructors, at random levels, exported or not) that each feed a second group H or provide a named value, a
// plain value or two, and then Invokes from the deepest scope first (H, the named values) and from every scope
// (G). Registration order is random; the differential C16 runner permutes it again.
func genDecoBlock(r *rand.Rand) *History {
	h := &History{}
	h.Opts.Defer = r.Intn(4) == 0
	h.Opts.Recover = r.Intn(2) == 0
	h.Opts.RandSeed = r.Int63n(1 << 30)
	h.Opts.OptOrder = r.Int63n(1 << 30)
	depth := 3 + r.Intn(2)
	parent := []int{-1}
	for i := 1; i < depth; i++ {
		parent = append(parent, i-1)
	}
	if r.Intn(3) == 0 {
		parent = append(parent, r.Intn(depth-1)) // a side branch
	}
	G := Key{T: 0, Group: "g1"}
	H := Key{T: 1, Group: "g2"}
	type reg struct {
		op Op
	}
	var regs []Op
	newFn := func(params []Param, results []Res) *Fn {
		f := &Fn{ID: len(h.Fns), Params: params, Results: results}
		h.Fns = append(h.Fns, f)
		return f
	}
	// feeders of G
	for i, n := 0, 1+r.Intn(3); i < n; i++ {
		res := []Res{{K: G}}
		if r.Intn(4) == 0 {
			res = []Res{{K: G, Flatten: true, N: 1 + r.Intn(2)}}
		}
		f := newFn(nil, res)
		regs = append(regs, Op{Kind: OpProvide, Scope: r.Intn(2), Fn: f.ID})
	}
	// decorators of G in distinct scopes of the chain
	nd := 2
	if depth > 3 && r.Intn(2) == 0 {
		nd = 3
	}
	for _, s := range r.Perm(depth)[:nd] {
		var params []Param
		if r.Intn(5) > 0 {
			params = []Param{{K: G}}
		}
		f := newFn(params, []Res{{K: G, Whole: true, N: 1 + r.Intn(2)}})
		regs = append(regs, Op{Kind: OpDecorate, Scope: s, Fn: f.ID})
	}
	// consumers of G
	var named []Key
	for i, n := 0, 2+r.Intn(3); i < n; i++ {
		var res []Res
		if r.Intn(3) > 0 {
			res = []Res{{K: H}}
		} else {
			k := Key{T: 2, Name: fmt.Sprintf("c%d", i)}
			named = append(named, k)
			res = []Res{{K: k}}
		}
		f := newFn([]Param{{K: G}}, res)
		s := r.Intn(len(parent))
		regs = append(regs, Op{Kind: OpProvide, Scope: s, Fn: f.ID, Export: s > 0 && r.Intn(2) == 0})
	}
	// a plain value somewhere in the middle
	plain := Key{T: 3}
	regs = append(regs, Op{Kind: OpProvide, Scope: 1, Fn: newFn(nil, []Res{{K: plain}}).ID})
	// scopes are created up front half of the time, otherwise right before they are first needed
	created := 1
	index := map[int]int{0: 0}
	var mk func(s int)
	mk = func(s int) {
		if _, ok := index[s]; ok {
			return
		}
		mk(parent[s])
		h.Ops = append(h.Ops, Op{Kind: OpScope, Scope: index[parent[s]]})
		index[s] = created
		created++
	}
	if r.Intn(2) == 0 {
		for s := range parent {
			mk(s)
		}
	}
	r.Shuffle(len(regs), func(i, j int) { regs[i], regs[j] = regs[j], regs[i] })
	for _, op := range regs {
		mk(op.Scope)
		op.Scope = index[op.Scope]
		h.Ops = append(h.Ops, op)
	}
	for s := range parent {
		mk(s)
	}
	invoke := func(s int, params ...Param) {
		f := newFn(params, nil)
		h.Ops = append(h.Ops, Op{Kind: OpInvoke, Scope: index[s], Fn: f.ID})
	}
	deepest := depth - 1
	invoke(deepest, Param{K: H}, Param{K: plain, Optional: true})
	for _, k := range named {
		invoke(deepest, Param{K: k, Optional: true})
	}
	for s := len(parent) - 1; s >= 0; s-- {
		invoke(s, Param{K: G})
	}
	invoke(0, Param{K: H})
	return h
}

// ---- big inputs (C05: resolution terminates, recursion stays linear) ------------------------------------------
//
// genBigShape draws one of: a chain of 200-1200 constructors (f_i needs the named value i-1 and provides the named
// value i) registered in random order, a function with 60-150 parameters, a value group with 150-400 feeders, or a
// binary tree of depth 8-9 - each followed by Invokes of the far end. Names supply the keys.
func genBigShape(r *rand.Rand) *History {
	h := &History{}
	h.Opts.Defer = r.Intn(3) == 0
	h.Opts.Recover = r.Intn(2) == 0
	h.Opts.RandSeed = r.Int63n(1 << 30)
	h.Opts.OptOrder = r.Int63n(1 << 30)
	newFn := func(params []Param, results []Res) *Fn {
		f := &Fn{ID: len(h.Fns), Params: params, Results: results}
		h.Fns = append(h.Fns, f)
		return f
	}
	key := func(i int) Key { return Key{T: i % 3, Name: fmt.Sprintf("k%d", i)} }
	var regs []Op
	var goals [][]Param
	switch r.Intn(4) {
	case 0:
		n := 200 + r.Intn(1001)
		for i := 0; i < n; i++ {
			var ps []Param
			if i > 0 {
				ps = []Param{{K: key(i - 1)}}
			}
			regs = append(regs, Op{Kind: OpProvide, Fn: newFn(ps, []Res{{K: key(i)}}).ID})
		}
		goals = [][]Param{{{K: key(n - 1)}}, {{K: key(n / 2)}}, {{K: key(n - 1)}}}
		if r.Intn(2) == 0 {
			// the far end fails (once or always): the error has to come back through hundreds of levels
			f0 := h.Fns[regs[0].Fn]
			kind := []string{"err", "panic", "err"}[r.Intn(3)]
			f0.HasErr = kind == "err"
			f0.Faults = map[int]string{[]int{0, 1}[r.Intn(2)]: kind}
		}
	case 1:
		n := 60 + r.Intn(91)
		var ps []Param
		for i := 0; i < n; i++ {
			regs = append(regs, Op{Kind: OpProvide, Fn: newFn(nil, []Res{{K: key(i)}}).ID})
			ps = append(ps, Param{K: key(i)})
		}
		regs = append(regs, Op{Kind: OpProvide, Fn: newFn(ps, []Res{{K: Key{T: 3}}}).ID})
		goals = [][]Param{{{K: Key{T: 3}}}}
	case 2:
		n := 150 + r.Intn(251)
		G := Key{T: 0, Group: "g1"}
		for i := 0; i < n; i++ {
			regs = append(regs, Op{Kind: OpProvide, Fn: newFn(nil, []Res{{K: G}}).ID})
		}
		goals = [][]Param{{{K: G}}, {{K: G}}}
	default:
		d := 8 + r.Intn(2)
		n := 1<<uint(d) - 1
		for i := 0; i < n; i++ {
			var ps []Param
			if 2*i+2 < n {
				ps = []Param{{K: key(2*i + 1)}, {K: key(2*i + 2)}}
			}
			regs = append(regs, Op{Kind: OpProvide, Fn: newFn(ps, []Res{{K: key(i)}}).ID})
		}
		goals = [][]Param{{{K: key(0)}}}
	}
	if r.Intn(3) > 0 {
		for i := range regs {
			regs[i].Callback = true
		}
	}
	r.Shuffle(len(regs), func(i, j int) { regs[i], regs[j] = regs[j], regs[i] })
	h.Ops = append(h.Ops, regs...)
	for _, g := range goals {
		h.Ops = append(h.Ops, Op{Kind: OpInvoke, Fn: newFn(g, nil).ID})
		if r.Intn(2) == 0 {
			// the picture of this Invoke's failure, if it failed (the plain picture otherwise)
			h.Ops = append(h.Ops, Op{Kind: OpVisualize, VisErrOf: len(h.Ops)})
		}
	}
	return h
}
