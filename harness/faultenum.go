package main

import "strings"

// Fault enumeration (C07, C13, C20): for a fault-free base history every single fault
// (function x {error, panic, error wrapping a foreign dig error, panic with such an error} x {first execution, first two, always}) is enumerated; the
// history is followed by two more rounds of all its Invokes (retries).

const faultSlots = 192 // 16 functions x 12 faults per base history

func genFaultEnum(kind string, seed int64, idx int) *Case {
	prof := kind[len("faultenum:"):]
	p := profileByName(prof)
	p.PFault = 0
	p.InvokeFaults = false
	base := idx / faultSlots
	slot := idx % faultSlots
	h := genHistory(caseRand(seed, kind, base), p)
	// functions that are registered (validly) or invoked, in id order
	used := map[int]bool{}
	var targets []int
	for _, op := range h.Ops {
		if (op.Kind == OpProvide || op.Kind == OpDecorate || op.Kind == OpInvoke) && op.Invalid == "" && op.Garbage == 0 && !used[op.Fn] {
			used[op.Fn] = true
			targets = append(targets, op.Fn)
		}
	}
	fnSlot, fm := slot/12, slot%12
	if fnSlot >= len(targets) {
		return nil
	}
	f := h.Fns[targets[fnSlot]]
	fk := "err"
	switch {
	case fm >= 9:
		// a panic whose value is an error wrapping another container's dig error
		fk = "panicdigerr"
	case fm >= 6:
		// an error that wraps another container's dig error
		fk = "digerr"
		f.HasErr = true
	case fm >= 3:
		fk = "panic"
	default:
		f.HasErr = true
	}
	switch fm % 3 {
	case 0:
		f.Faults = map[int]string{1: fk}
	case 1:
		f.Faults = map[int]string{1: fk, 2: fk}
	case 2:
		f.Faults = map[int]string{0: fk}
	}
	var invokes []Op
	for _, op := range h.Ops {
		if op.Kind == OpInvoke && op.Invalid == "" {
			invokes = append(invokes, op)
		}
	}
	for round := 0; round < 2; round++ {
		h.Ops = append(h.Ops, invokes...)
	}
	h.Note = "faultenum base=" + strings.TrimSpace(prof)
	return &Case{Kind: kind, H: h}
}
