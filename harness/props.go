package main

import "fmt"

func profileByName(name string) Profile {
	p := baseProfile()
	p.Name = name
	switch name {
	case "general":
		// (4, 7 and tEmbV twice: method-less struct types, the ones layouts 7 and 8 can embed)
		p.Types = []int{0, 1, 2, 3, 4, 7, 9, 17, tBundle, tMapV, tFuncV, tArrV, tEmbV, 4, 7, tEmbV, tBundle, tBundle}
	case "gapped":
		p.PGap, p.POptional, p.PDecorate, p.PInvalid = 0.22, 0.4, 0.1, 0.02
		p.MinFns, p.MaxFns = 3, 10
	case "cyclic":
		p.PBackEdge, p.PDefer, p.PDecorate, p.PGap, p.PInvalid = 0.35, 0.4, 0.08, 0.03, 0.02
		p.MaxScopes, p.PExport = 5, 0.3
		p.MinFns, p.MaxFns = 3, 10
	case "scopes":
		p.MaxScopes, p.PExport, p.PLateScope, p.PDup = 6, 0.3, 0.6, 0.1
		p.Types = []int{0, 1, 2}
		p.MinFns, p.MaxFns = 4, 12
		p.PMidInvoke = 0.4
	case "keys":
		p.Types = []int{tAny, 0, 1, 3, 8, 19, tTwinA, tTwinB}
		p.Twins = true
		// names and groups that differ only in case or surrounding blanks are different keys
		p.Names = []string{"", "n1", "q\"x", "n1 ", "N1"}
		p.Groups = []string{"g1", "g2", "n1", "g1 ", " g1", "G1"}
		p.PNamed, p.PAs, p.PDup, p.PGroupRes, p.PGroupPar = 0.6, 0.3, 0.2, 0.3, 0.3
	case "groups":
		p.PGroupRes, p.PGroupPar, p.PSoft, p.PFlatten, p.PDecorate = 0.5, 0.5, 0.12, 0.4, 0.1
		p.Types = []int{0, tSliceV, 1, 2}
		p.GroupTypes = []int{0, tSliceV, tPtrBase, 0} // VS: members of slice kind, nil ones included; *V0: one pointer twice
		p.MaxScopes, p.PExport = 5, 0.3
		p.PAs = 0.15
		p.PMidInvoke = 0.4
	case "soft":
		p.PGroupRes, p.PGroupPar, p.PSoft, p.PNested, p.PDecorate = 0.5, 0.6, 0.6, 0.6, 0.08
		p.PMidInvoke = 0.4
	case "decor":
		p.PDecorate, p.PGroupDec, p.MaxScopes, p.PMidInvoke = 0.8, 0.3, 5, 0.4
		p.Types = []int{0, 1, 2}
	case "faults":
		p.PFault, p.InvokeFaults, p.PCallback = 0.3, true, 0.4
		p.PDigErr, p.POptional, p.PCbPanic = 0.25, 0.35, 0.15
		p.PGap, p.PBackEdge, p.PInvalid = 0.03, 0.03, 0.02
		p.Invokes = [2]int{4, 10}
	case "faultssoft":
		p.PFault, p.InvokeFaults, p.PGroupRes, p.PGroupPar, p.PSoft, p.PNested = 0.3, true, 0.5, 0.6, 0.6, 0.5
		p.PRecover, p.MaxScopes, p.PDecorate, p.PGap, p.PInvalid, p.PMidInvoke = 0.5, 4, 0.05, 0.03, 0.02, 0.4
		p.Invokes = [2]int{4, 10}
	case "faultsgroups":
		p.PFault, p.InvokeFaults, p.PGroupRes, p.PGroupPar, p.PFlatten = 0.3, true, 0.5, 0.5, 0.4
		p.PSoft, p.PRecover, p.MaxScopes, p.PExport, p.PGap, p.PInvalid = 0.1, 0.4, 4, 0.25, 0.03, 0.02
		p.Invokes = [2]int{4, 10}
	case "reentrant":
		p.PReenter, p.PDecorate, p.PFault, p.PInvalid, p.PGap = 0.4, 0.5, 0.1, 0.02, 0.05
		p.MaxScopes = 3
	case "faultbase":
		p.PGap, p.PBackEdge, p.PInvalid, p.PDup, p.PDecorate, p.PCallback = 0.02, 0.02, 0, 0.02, 0.35, 0.3
		p.MinFns, p.MaxFns = 2, 8
		p.Invokes = [2]int{2, 5}
	case "cbbase":
		p.PGap, p.PBackEdge, p.PInvalid, p.PDup, p.PDecorate, p.PCallback = 0.02, 0.02, 0, 0.02, 0.35, 0.8
		p.MinFns, p.MaxFns = 2, 8
		p.Invokes = [2]int{2, 5}
	case "faultsdecor":
		p.PFault, p.InvokeFaults, p.PCallback = 0.3, true, 0.4
		p.PDigErr, p.POptional = 0.25, 0.35
		p.PDecorate, p.PGap, p.PBackEdge, p.PInvalid = 0.7, 0.03, 0.03, 0.02
		p.Invokes = [2]int{4, 10}
	case "rejects":
		p.PInvalid, p.PDup, p.PBackEdge, p.PInfo, p.PCallback = 0.35, 0.25, 0.25, 0.4, 0.3
		p.MaxScopes, p.PDecorate, p.PVisualize, p.PFault = 4, 0.5, 0.15, 0.08
	case "enc":
		p.PSoft, p.PNested, p.PVariadic, p.PViaOpt, p.PFault, p.PInfo = 0, 0.5, 0.2, 0.3, 0.1, 0.3
		p.PAs = 0.1
		p.Types = []int{0, 1, 4, 7, tEmbV}
		// names and groups that an option and a tag must treat alike, whatever they contain
		p.Names = []string{"", "", "n1", "a`b", "q\"x"}
		p.Groups = []string{"g1", "g2", "g`3"}
	case "order":
		p.PSoft, p.PFault, p.MaxScopes, p.PLateScope, p.PMidInvoke, p.PInvalid = 0, 0, 5, 0.5, 0.4, 0
		p.PDefer = 0.3
		p.PBackEdge = 0.04
	case "large", "largefaults", "largerejects", "largeinfo", "largeviz", "largegraph", "largegraphfaults", "largeenc":
		// sizes the other profiles never reach (batch l): 20-45 constructors, scope chains up to 12 deep, 8-16
		// results / parameters / flatten elements in a quarter of the functions, 8-20 Invokes, many names
		p.Big = true
		p.MinFns, p.MaxFns, p.MaxScopes, p.Invokes = 20, 45, 12, [2]int{8, 20}
		p.Names = []string{"", ""}
		for i := 0; i < 24; i++ {
			p.Names = append(p.Names, fmt.Sprintf("n%d", i))
		}
		p.PGroupRes, p.PGroupPar, p.PSoft, p.PFlatten, p.PExport, p.PDup = 0.3, 0.25, 0.25, 0.4, 0.25, 0.1
		p.PDecorate, p.PMidInvoke, p.PLateScope, p.PNested = 0.15, 0.4, 0.5, 0.4
		switch name {
		case "largefaults":
			p.PFault, p.InvokeFaults, p.PCallback, p.PDigErr = 0.15, true, 0.8, 0.15
		case "largerejects":
			p.PBackEdge, p.PInvalid, p.PDup, p.PDefer = 0.12, 0.1, 0.2, 0.3
		case "largeinfo":
			p.PInfo, p.PAs, p.PVariadic = 0.9, 0.2, 0.3
		case "largeenc":
			// C15 pairs: no soft groups (what a soft group holds depends on where it stands among the
			// parameters, which is exactly what the encodings change; profile enc does the same)
			// ... except here: soft groups stay, what they receive is masked in the comparison, and there are no
			// decorators (a soft parameter of a decorated group runs the decorator, early or late)
			p.PSoft, p.PViaOpt, p.PVariadic, p.PDecorate = 0.25, 0.3, 0.2, 0
		case "largeviz":
			p.PVisualize, p.PFault, p.InvokeFaults = 0.4, 0.15, true
		case "largegraph", "largegraphfaults":
			// long-lived containers: 60-90 constructors and 30-70 Invokes, many of them with group parameters
			// (each leaves a node in the scope's graph), so that a scope's graph passes 64 and 128 nodes while
			// registrations, rejections and Invokes keep coming
			p.MinFns, p.MaxFns, p.MaxScopes, p.Invokes = 60, 90, 5, [2]int{30, 70}
			p.PGroupPar, p.PGroupRes, p.PMidInvoke, p.PGap, p.PBackEdge, p.PDefer = 0.4, 0.3, 0.6, 0.05, 0.06, 0.3
			// few group keys and few scopes: ten and more feeders of one group in one scope
			p.Groups, p.GroupTypes, p.MaxScopes = []string{"g1", "g1", "g2"}, []int{0}, 3
			if name == "largegraphfaults" {
				p.PFault, p.InvokeFaults, p.PCallback = 0.12, true, 0.5
			}
		}
	case "orderdefer":
		// the verification-timing half of C16: every pair differs in DeferAcyclicVerification only; registrations
		// interleaved with Invokes from several scopes, consumers registered before what they consume
		p.PSoft, p.PFault, p.MaxScopes, p.PLateScope, p.PMidInvoke, p.PInvalid = 0, 0, 4, 0.5, 0.8, 0
		p.PDefer, p.PBackEdge, p.PGap, p.POptional = 0.5, 0.01, 0.1, 0.3
		p.Invokes = [2]int{4, 9}
	case "orderdeco":
		p.PSoft, p.PFault, p.MaxScopes, p.PLateScope, p.PMidInvoke, p.PInvalid = 0, 0, 4, 0.5, 0.3, 0
		p.PDefer, p.PBackEdge = 0.3, 0.02
		p.PDecorate, p.PGroupDec, p.PGroupRes, p.PGroupPar, p.PExport = 0.6, 0.75, 0.5, 0.5, 0.35
		p.Types = []int{0}
		p.MinFns, p.MaxFns, p.PNamed, p.PFlatten, p.POptional, p.PNested, p.PVariadic = 4, 7, 0.05, 0.1, 0.05, 0.1, 0
	case "dry":
		p.PFault, p.MaxScopes, p.PInvalid, p.PDup, p.PBackEdge, p.PInfo, p.PVisualize = 0, 5, 0.15, 0.1, 0.15, 0.3, 0.1
	case "info":
		p.PInfo, p.PNested, p.PAs, p.PVariadic, p.PInvalid, p.PDup = 0.9, 0.6, 0.2, 0.3, 0.15, 0.1
		p.PLocPC = 0.15
		p.Types = []int{0, 1, 2, 3, tEmbV, tEmbV}
	case "callbacks":
		p.PCallback, p.PFault, p.InvokeFaults, p.PDecorate = 0.7, 0.3, true, 0.4
		p.PDigErr = 0.2
		p.PLocPC = 0.15
		p.PGap = 0.1
		p.Invokes = [2]int{4, 10}
	case "viz":
		p.PVisualize, p.PGroupRes, p.PGroupPar = 0.5, 0.3, 0.3
		p.MaxScopes = 6                                  // bushy trees: every scope's constructors must be in the picture
		p.Names = []string{"", "n1", "a<b&c", "b\\s\tt"} // backslash and tab: what Go's quoting and DOT's disagree on
		p.Groups = []string{"g1", "g<3>"}
		p.PInvalid, p.PDup = 0.15, 0.1
	case "vizerr":
		// pictures of failures of every origin: constructors, decorators, group decorators, missing types
		p.PVisualize, p.PFault, p.InvokeFaults, p.PDecorate, p.PGroupDec = 0.6, 0.35, true, 0.7, 0.5
		p.PGroupRes, p.PGroupPar, p.PGap, p.PMidInvoke = 0.4, 0.4, 0.12, 0.5
		p.Names = []string{"", "n1", "a<b&c", "b\\s\tt"}
		p.Groups = []string{"g1", "g<3>", "g\\4"}
		p.Invokes = [2]int{3, 8}
	case "pviz":
		p.PVisualize, p.PFault, p.PDecorate, p.MinFns, p.MaxFns, p.MaxScopes = 0.6, 0.25, 0.05, 2, 9, 6
		p.PLocPC = 0.1
		p.Names = []string{"", "n1", "a<b"}
		p.Groups = []string{"g1", "g<2>"}
		p.PGap, p.PMidInvoke, p.PDefer = 0.15, 0.3, 0.1
		p.Invokes = [2]int{2, 6}
	case "pcyclic":
		// declared functions (distinct names) in cyclic shapes: the reported cycle paths can be read back
		p.PFault, p.PDecorate, p.MinFns, p.MaxFns, p.MaxScopes = 0, 0.1, 4, 14, 4
		p.PDefer, p.PExport, p.PMidInvoke, p.PVisualize = 0.35, 0.25, 0.3, 0
		p.Invokes = [2]int{2, 6}
	case "pcallbacks":
		p.PCallback, p.PFault, p.InvokeFaults, p.PDecorate, p.MinFns, p.MaxFns = 0.7, 0.3, true, 0.3, 2, 9
		p.PLocPC = 0.15
		p.Names = []string{"", "n1", "a<b"}
		p.Groups = []string{"g1", "g<2>"}
		p.Invokes = [2]int{3, 8}
	case "pinfo":
		p.PInfo, p.PDecorate, p.MinFns, p.MaxFns = 0.9, 0.3, 2, 9
		p.PLocPC = 0.15
		p.Names = []string{"", "n1", "a<b"}
		p.Groups = []string{"g1", "g<2>"}
	}
	return p
}

func jobsFor(prop, tier string) []JobSpec {
	q := tier == "quick"
	n := func(quick, thorough int) int {
		if q {
			return quick
		}
		return thorough
	}
	switch prop {
	case "C01":
		return []JobSpec{{"hist:general", n(25000, 1200000)}, {"hist:decor", n(10000, 500000)}, {"hist:scopes", n(10000, 500000)}, {"hist:faultsdecor", n(10000, 500000)}}
	case "C02":
		return []JobSpec{{"hist:general", n(20000, 1000000)}, {"hist:decor", n(15000, 700000)}, {"hist:faults", n(15000, 700000)}, {"hist:reentrant", n(15000, 700000)}}
	case "C03":
		return []JobSpec{{"hist:general", n(25000, 1200000)}, {"hist:soft", n(10000, 500000)}, {"hist:scopes", n(15000, 700000)}}
	case "C04":
		return []JobSpec{{"hist:gapped", n(40000, 2000000)}, {"hist:scopes", n(10000, 500000)}, {"hist:faults", n(10000, 500000)}}
	case "C07":
		return []JobSpec{{"faultenum:faultbase", n(300*faultSlots, 12000*faultSlots)}, {"hist:faults", n(20000, 1000000)}, {"hist:faultsdecor", n(15000, 700000)}}
	case "C08":
		return []JobSpec{{"hist:scopes", n(50000, 2500000)}}
	case "C09":
		return []JobSpec{{"hist:keys", n(50000, 2500000)}}
	case "C10":
		// hist:faultsgroups: feeders and their dependencies fail (errors, recovered and unrecovered panics) and are retried
		return []JobSpec{{"hist:groups", n(50000, 2500000)}, {"hist:faultsgroups", n(15000, 700000)}}
	case "C11":
		// hist:faultssoft: what a FAILED constructor returned must never show up in a soft group later
		return []JobSpec{{"hist:soft", n(50000, 2500000)}, {"hist:faultssoft", n(15000, 700000)}}
	case "C12":
		return []JobSpec{{"hist:decor", n(40000, 2000000)}, {"hist:faultsdecor", n(10000, 500000)}, {"hist:decoblock", n(10000, 500000)}}
	case "C13":
		return []JobSpec{{"faultenum:faultbase", n(250*faultSlots, 10000*faultSlots)}, {"hist:faults", n(15000, 700000)}, {"hist:rejects", n(25000, 1200000)}}
	case "C18":
		return []JobSpec{{"hist:info", n(40000, 2000000)}, {"pool:pinfo", n(20000, 1000000)}}
	case "C19":
		return []JobSpec{{"pool:pviz", n(40000, 2000000)}, {"hist:viz", n(20000, 1000000)}, {"hist:vizerr", n(10000, 500000)}}
	case "C20":
		return []JobSpec{{"faultenum:cbbase", n(250*faultSlots, 10000*faultSlots)}, {"hist:callbacks", n(25000, 1200000)}, {"pool:pcallbacks", n(20000, 1000000)}}
	}
	return extraJobs(prop, tier)
}

// tinyJobs: the bounded-exhaustive histories (tiny.go) added to a property's jobs.
func tinyJobs(prop, tier string) []JobSpec {
	q := tier == "quick"
	switch prop {
	case "C01", "C03", "C12":
		if q {
			return []JobSpec{{"tinysamp", 15000}}
		}
		return []JobSpec{{"tiny", tinyTotal(4)}}
	case "C02", "C04", "C05", "C08", "C09", "C10", "C11":
		if q {
			return []JobSpec{{"tinysamp", 15000}}
		}
		return []JobSpec{{"tiny", tinyTotal(3)}, {"tinysamp", 800000}}
	case "C07", "C13", "C20":
		if q {
			return []JobSpec{{"tinyfaultsamp", 15000}}
		}
		return []JobSpec{{"tinyfault", tinyFaultTotal()}}
	case "C06", "C16", "C17":
		k := map[string]string{"C06": ":c06", "C16": ":c16", "C17": ":c17"}[prop]
		if q {
			return []JobSpec{{"difftinysamp" + k, 15000}}
		}
		return []JobSpec{{"difftiny" + k, tinyTotal(3)}, {"difftinysamp" + k, 800000}}
	}
	return nil
}

// tinyScopeJobs: bounded-exhaustive histories with explicit scope creation over a 4-scope tree (tiny.go).
func tinyScopeJobs(prop, tier string) []JobSpec {
	q := tier == "quick"
	switch prop {
	case "C08", "C12", "C05", "C01":
		if q {
			return []JobSpec{{"tinyscope", tinySTotal(4)}}
		}
		return []JobSpec{{"tinyscope", tinySTotal(5)}, {"tinyscopesamp", 500000}}
	case "C16":
		if q {
			return []JobSpec{{"difftinyscope:c16", tinySTotal(4)}}
		}
		return []JobSpec{{"difftinyscope:c16", tinySTotal(5)}}
	}
	return nil
}

// tinyKeysJobs: bounded-exhaustive histories over the key-identity alphabet (tiny.go).
func tinyKeysJobs(prop, tier string) []JobSpec {
	switch prop {
	case "C09", "C10":
		if tier == "quick" {
			return []JobSpec{{"tinykeyssamp", 15000}}
		}
		return []JobSpec{{"tinykeys", tinyKTotal(tinyKMaxLen)}}
	}
	return nil
}

func allJobsFor(prop, tier string) []JobSpec {
	return append(append(append(append(jobsFor(prop, tier), tinyJobs(prop, tier)...), tinyScopeJobs(prop, tier)...), tinyKeysJobs(prop, tier)...), largeJobs(prop, tier)...)
}

// largeJobs: histories of sizes the other profiles never reach (profiles large*, genBigShape), for size-dependent
// defects: thresholds of small buffers, word sizes, sort algorithms, slice growth (seeded batch l).
func largeJobs(prop, tier string) []JobSpec {
	n, nb := 1200, 32
	if tier != "quick" {
		n, nb = 50000, 800
	}
	ng := n / 6
	switch prop {
	case "C01", "C08", "C09", "C10", "C11", "C12":
		return []JobSpec{{"hist:large", n}}
	case "C02", "C03", "C04":
		return []JobSpec{{"hist:large", n}, {"hist:largegraph", ng}}
	case "C05":
		return []JobSpec{{"hist:largerejects", n}, {"hist:largegraph", ng}}
	case "C06":
		return []JobSpec{{"hist:largerejects", n}, {"hist:largegraph", ng}, {"diff:c06graph", 2 * ng}}
	case "C14":
		return []JobSpec{{"hist:largerejects", n}}
	case "C07":
		return []JobSpec{{"hist:largefaults", n}, {"hist:bigshape", nb}, {"hist:largegraphfaults", ng}}
	case "C13", "C20":
		return []JobSpec{{"hist:largefaults", n}, {"hist:bigshape", nb}}
	case "C15":
		return []JobSpec{{"diff:c15big", n * 10 / 3}}
	case "C16":
		return []JobSpec{{"diff:c16big", n}, {"diff:c16graph", ng}}
	case "C17":
		return []JobSpec{{"diff:c17big", n}, {"diff:c17graph", 8 * ng}}
	case "C18":
		return []JobSpec{{"hist:largeinfo", n}}
	case "C19":
		return []JobSpec{{"hist:largeviz", n}, {"hist:bigshape", nb}}
	}
	return nil
}

func levelFor(prop string) string {
	switch prop {
	case "C07", "C13", "C20":
		return "fault_enumeration"
	}
	return "exploration"
}

func floorFor(prop, tier string) int {
	if tier == "quick" {
		return 1000
	}
	return 50000
}

func exhaustiveFor(prop, tier string) string {
	tiny := ""
	if tier != "quick" {
		alpha := fmt.Sprintf("the %d-call alphabet of tiny.go (9 constructor, 4 decorator and 4 invoke signatures over two types and one value group, placed in a root or child scope, with and without Export), child scope created first or just before its first use, each followed by invoking every key from both scopes", len(tinyAlphabet))
		switch prop {
		case "C01", "C03", "C12":
			tiny = fmt.Sprintf("every history of at most 4 API calls over %s (%d histories)", alpha, tinyTotal(4))
		case "C02", "C04", "C05", "C08", "C09", "C10", "C11":
			tiny = fmt.Sprintf("every history of at most 3 API calls over %s (%d histories)", alpha, tinyTotal(3))
		case "C07", "C13", "C20":
			tiny = fmt.Sprintf("every history of at most 3 API calls over %s, times every single fault (call position x {error, panic, error wrapping another container's dig error, panic with such an error} x {first execution, every execution}), followed by two retry rounds (%d cases)", alpha, tinyFaultTotal())
		case "C06", "C16", "C17":
			tiny = fmt.Sprintf("every history of at most 3 API calls over %s, each run as a differential pair (%d pairs)", alpha, tinyTotal(3))
		}
	}
	switch prop {
	case "C08", "C12", "C05", "C01", "C16":
		k := 5
		if tier == "quick" {
			k = 4
		}
		ts := fmt.Sprintf("every history of at most %d API calls (scope creations included as calls) over the %d-call alphabet of tiny.go's 4-scope tree (root, child, grandchild, second child; 3 constructor signatures in every scope and exported, decorators of a value and of a group, invokes from 3 scopes), %d histories", k, len(tinySAlphabet), tinySTotal(k))
		if tiny != "" {
			tiny += "; " + ts
		} else {
			tiny = ts
		}
	}
	if (prop == "C09" || prop == "C10") && tier != "quick" {
		tiny += fmt.Sprintf("; every history of at most 4 API calls over the %d-call key-identity alphabet of tiny.go (one type provided unnamed / named / grouped, each also with As(interface), in a root or child scope; requested as the type or the interface, unnamed / named / grouped, from both scopes), %d histories", len(tinyKAll), tinyKTotal(tinyKMaxLen))
	}
	if prop == "C05" {
		if tier == "quick" {
			return "every digraph with at most 5 nodes (33.6 million, self-loops included) through the real cycle search; " + tiny
		}
		return "every digraph with at most 5 nodes (33.6 million, self-loops included) through the real cycle search; every dig program with at most 3 constructors over the listed scope trees, export flags, orders and edge encodings; " + tiny
	}
	return tiny
}

func ruleText(prop string) string {
	return "cases are histories (scope tree, constructors, decorators, invokes, options, faults) drawn shape-first from a PRNG keyed by (seed, job kind, case index) and executed against the real dig code with every user function owned by the monitor; " +
		"a case is non-trivial when the monitor judged at least one event relevant to " + prop + " in it (see property_relevant_events); " +
		"distinct = distinct shape signatures among non-trivial cases (hash of the op sequence with target scopes, per-function parameter/result kind vectors, option and fault flags; type indexes and names abstracted away)"
}

func assumptionsFor(prop string) []string {
	return []string{
		"held on the executions produced, nothing more; no claim about histories outside the generator's bounds (<=14 functions, <=5 scopes, nesting <=3)",
		"the harness owns every user function; containers are used sequentially and non-reentrantly",
		"spec state (DESIGN.md section 5) is the oracle; its exclusions are listed in DESIGN.md section 10",
		"dig built from /repo working tree with -tags verif (hooks only add VerifIsAcyclic, VerifMockClock, VerifSeedRand, VerifCyclePath)",
	}
}
