#!/bin/sh
# usage: tools/benign.sh <dir with patch.diff, meta.json> [props...]
# The opposite of tools/seeded.sh: the change in <dir> is meant to KEEP every property (it alters only what
# the properties leave unspecified). Applies it to a scratch copy of /repo's HEAD, confirms the repository's
# suite is unchanged, and runs the quick checks (default: all 20) against it. Every check has to stay silent;
# an alarm here is either a false alarm of the machinery or a change that is not benign after all, and has to
# be triaged by hand.
export GOFLAGS=-mod=mod GOPROXY=off GOSUMDB=off GOTOOLCHAIN=local
ROOT=$(cd "$(dirname "$0")/.." && pwd)
dir=$(readlink -f "$1"); shift
name=$(basename "$dir")
props="$*"; [ -z "$props" ] && props="C01 C02 C03 C04 C05 C06 C07 C08 C09 C10 C11 C12 C13 C14 C15 C16 C17 C18 C19 C20"
scratch=$(mktemp -d /var/tmp/digbenign.XXXXXX)
trap 'rm -rf "$scratch" "$ROOT/.build/$(printf %s "$scratch" | cksum | cut -d" " -f1)"' EXIT
(cd /repo && git archive HEAD) | tar -x -C "$scratch"
if ! (cd "$scratch" && patch -p1 --dry-run -s < "$dir/patch.diff" >/dev/null 2>&1); then echo "$name: patch does not apply"; exit 2; fi
(cd "$scratch" && patch -p1 -s < "$dir/patch.diff")
suite=ok; "$ROOT/tools/repo-suite.sh" "$scratch" >/dev/null 2>&1 || suite=KILLED
echo "$name suite=$suite"
bad=0
for p in $props; do
	start=$(date +%s)
	out=$(VERIF_REPO="$scratch" VERIF_OUT="$scratch/out" "$ROOT/verif.sh" check "$p" quick 2>&1); code=$?
	end=$(date +%s)
	rules=$(printf '%s\n' "$out" | grep '^  rule=' | grep -o 'rule=[A-Za-z0-9.-]*' | sort -u | tr '\n' ' ')
	echo "  check $p exit=$code $((end-start))s alarms: $rules"
	if [ $code -ne 0 ]; then
		bad=1
		mkdir -p "/var/tmp/benign-alarms/$name"
		printf '%s\n' "$out" > "/var/tmp/benign-alarms/$name/$p.out"
		for r in $(printf '%s\n' "$out" | grep -o 'replay=[^ ]*' | sed 's/replay=//' | head -5); do cp "$r" "/var/tmp/benign-alarms/$name/" 2>/dev/null; done
	fi
done
exit $bad
