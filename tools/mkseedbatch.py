#!/usr/bin/env python3
# usage: tools/mkseedbatch.py <letter> <hints.json>
# Writes /tmp/seed-<letter>/Cxx.txt (property text + trigger hint + one-line summaries of the seeded changes
# already stored for that property) for a new batch of seeded changes. The sub-agents get only these files
# and INSTRUCTIONS.md, never anything else from /verif.
import json, sys, os, glob
letter, hints = sys.argv[1], json.load(open(sys.argv[2]))
out = f'/tmp/seed-{letter}'
os.makedirs(out, exist_ok=True)
root = os.path.dirname(os.path.dirname(os.path.abspath(__file__)))
for l in open(os.path.join(root, 'properties.jsonl')):
    p = json.loads(l)
    pid = p['id']
    prev = []
    for d in sorted(glob.glob(os.path.join(root, 'seeded', pid + '-*'))):
        try:
            prev.append(json.load(open(os.path.join(d, 'meta.json'))).get('summary', '')[:320].replace('\n', ' '))
        except Exception:
            pass
    with open(os.path.join(out, pid + '.txt'), 'w') as f:
        f.write(f"PROPERTY {pid}: {p['title']}\n\n{p['statement']}\n\n")
        if p.get('quantifier'):
            f.write(f"Quantifier: {p['quantifier']}\n\n")
        f.write(f"TRIGGER HINT: make the change manifest only under: {hints[pid]} (pick one concrete situation; the change itself may be anywhere in the non-test source).\n\n")
        f.write("Changes other people already produced for this property (do NOT repeat these or close variants; pick a different site, mechanism and trigger):\n")
        for s in prev:
            f.write(f" - {s}\n")
