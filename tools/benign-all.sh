#!/bin/sh
# Runs tools/benign.sh (all 20 quick checks) over every stored property-preserving change, two at a time.
# Output: one block per change; "exit=1" lines are alarms to triage by hand (see DESIGN 16.6).
ROOT=$(cd "$(dirname "$0")/.." && pwd)
cd "$ROOT"
run() { tools/benign.sh "$1" > "/var/tmp/benign-all.$(basename "$1").out" 2>&1; }
n=0
for d in benign/B*/; do
	run "$d" &
	n=$((n+1))
	if [ $((n % 2)) -eq 0 ]; then wait; fi
done
wait
for d in benign/B*/; do cat "/var/tmp/benign-all.$(basename "$d").out"; rm -f "/var/tmp/benign-all.$(basename "$d").out"; done
