#!/bin/sh
# Runs the repository's own suite (hooks off) in ${1:-/repo}; succeeds iff the only failing test is the
# baseline's always-failing TestProvideLocation.
export GOFLAGS=-mod=mod GOPROXY=off GOSUMDB=off GOTOOLCHAIN=local
cd "${1:-/repo}" || exit 2
out=$(go test -vet=off -count=1 ./... 2>&1)
fails=$(printf '%s\n' "$out" | grep -- '^--- FAIL' | awk '{print $3}' | sort -u | tr '\n' ' ')
if printf '%s\n' "$out" | grep -q 'build failed\|cannot\|undefined:'; then echo "BUILD FAILED"; printf '%s\n' "$out" | tail -5; exit 1; fi
if [ "$fails" = "TestProvideLocation " ]; then echo "suite ok (baseline: only TestProvideLocation fails)"; exit 0; fi
echo "suite FAILED: $fails"; printf '%s\n' "$out" | grep -A8 -- '^--- FAIL' | head -40; exit 1
