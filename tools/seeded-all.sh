#!/bin/sh
# Runs every stored seeded change through tools/seeded.sh (demo on the clean tree, demo with the change, the
# repository's suite, the quick check of its property), ${JOBS:-3} at a time. A change whose own property's check
# stays silent although the change violates that property only through other properties' rules lists the
# checks that do catch it in meta.json ("also_check").
ROOT=$(cd "$(dirname "$0")/.." && pwd)
cd "$ROOT"
tmp=$(mktemp -d /var/tmp/seededall.XXXXXX)
trap 'rm -rf "$tmp"' EXIT
jobs=${JOBS:-3}
run_one() {
	d=$1; n=$(basename "$d")
	if grep -q '"obsolete"' "$d/meta.json"; then
		echo "obsolete: neutralised by a later fix: commit (see meta.json)" > "$tmp/$n.out"
		return
	fi
	extra=$(python3 -c "import json;print(' '.join(json.load(open('$d/meta.json')).get('also_check',[])))" 2>/dev/null)
	prop=$(python3 -c "import json;print(json.load(open('$d/meta.json'))['property'])")
	tools/seeded.sh "$d" $prop $extra > "$tmp/$n.out" 2>&1
}
n=0
for d in seeded/C*/; do
	run_one "$d" &
	n=$((n+1))
	if [ $((n % jobs)) -eq 0 ]; then wait; fi
done
wait
for d in seeded/C*/; do
	n=$(basename "$d")
	sed "s|^|$n: |" "$tmp/$n.out" | cut -c1-260
done
