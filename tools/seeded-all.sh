#!/bin/sh
# Runs every stored seeded change through the quick check of its property (optionally VERIF_SCALE=x).
ROOT=$(cd "$(dirname "$0")/.." && pwd)
for d in "$ROOT"/seeded/*/; do
	"$ROOT/tools/seeded.sh" "$d" 2>&1 | grep "check " | sed "s|^|$(basename $d): |" | cut -c1-200
done
