#!/bin/sh
# usage: tools/seeded.sh <dir with patch.diff, demo_test.go, meta.json> [props...]
# Confirms a seeded change (demo passes on the clean tree, fails with the change, the repository's
# suite is unchanged) and then runs the given quick checks (default: the property in meta.json) against it.
export GOFLAGS=-mod=mod GOPROXY=off GOSUMDB=off GOTOOLCHAIN=local
ROOT=$(cd "$(dirname "$0")/.." && pwd)
dir=$(readlink -f "$1"); shift
prop=$(python3 -c "import json,sys;print(json.load(open('$dir/meta.json'))['property'])")
props="$*"; [ -z "$props" ] && props=$prop
scratch=$(mktemp -d /var/tmp/digseed.XXXXXX)
trap 'rm -rf "$scratch" "$ROOT/.build/$(printf %s "$scratch" | cksum | cut -d" " -f1)"' EXIT
(cd /repo && git archive HEAD) | tar -x -C "$scratch"
cp "$dir/demo_test.go" "$scratch/zz_demo_seeded_test.go"
tests=$(grep -o '^func Test[A-Za-z0-9_]*' "$scratch/zz_demo_seeded_test.go" | sed 's/func //' | tr '\n' '|' | sed 's/|$//')
clean=$(cd "$scratch" && go test -vet=off -count=1 -run "^($tests)\$" . 2>&1 | tail -1)
if ! (cd "$scratch" && git apply --check "$dir/patch.diff" 2>/dev/null || patch -p1 --dry-run -s < "$dir/patch.diff" >/dev/null 2>&1); then echo "$prop: patch does not apply"; exit 2; fi
(cd "$scratch" && patch -p1 -s < "$dir/patch.diff")
mut=$(cd "$scratch" && go test -vet=off -count=1 -run "^($tests)\$" . 2>&1 | tail -1)
rm "$scratch/zz_demo_seeded_test.go"
suite=ok; "$ROOT/tools/repo-suite.sh" "$scratch" >/dev/null 2>&1 || suite=KILLED
echo "$prop demo-on-clean: [$clean] demo-with-change: [$mut] suite=$suite"
for p in $props; do
	start=$(date +%s)
	out=$(VERIF_REPO="$scratch" VERIF_OUT="$scratch/out" "$ROOT/verif.sh" check "$p" quick 2>&1); code=$?
	end=$(date +%s)
	rules=$(printf '%s\n' "$out" | grep '^  rule=' | grep -o 'rule=[A-Za-z0-9.-]*' | sort -u | tr '\n' ' ')
	notes=$(printf '%s\n' "$out" | grep '^NOTE' | grep -o 'rule=[A-Za-z0-9.-]*' | sort -u | tr '\n' ' ')
	echo "  check $p exit=$code $((end-start))s violations: $rules | notes: $notes"
done
