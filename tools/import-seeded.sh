#!/bin/sh
# usage: tools/import-seeded.sh <src dir> <name> "<caught-by text>" 
# Runs tools/seeded.sh on the change and stores it as /verif/seeded/<name>/ with the confirmation record.
ROOT=$(cd "$(dirname "$0")/.." && pwd)
src=$1; name=$2; shift 2
out=$("$ROOT/tools/seeded.sh" "$src" "$@" 2>&1)
echo "$out"
mkdir -p "$ROOT/seeded/$name"
cp "$src/patch.diff" "$ROOT/seeded/$name/patch.diff"
cp "$src/demo_test.go" "$ROOT/seeded/$name/demo_test.go"
python3 - "$src/meta.json" "$ROOT/seeded/$name/meta.json" "$out" <<'PY'
import json,sys
m=json.load(open(sys.argv[1]))
out=sys.argv[3]
m["confirmed_by_me"]={"command":"tools/seeded.sh (scratch copy of /repo HEAD under /var/tmp: demo on clean tree, demo with the change, repository suite with the change, then quick checks with VERIF_REPO=<scratch>)","output":out.splitlines()}
m["origin"]="written by an independent sub-agent that was given only the property text and a scratch worktree"
json.dump(m,open(sys.argv[2],"w"),indent=1)
PY
