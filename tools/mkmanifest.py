#!/usr/bin/env python3
"""Writes /verif/MANIFEST.json from the table below and validates it against the schema."""
import json, subprocess, sys
props=[json.loads(l) for l in open('/verif/properties.jsonl')]
ids=[p['id'] for p in props]
# id -> (category, technique, engine, level text, level note)
claimed={
 "C01":("exploration","online trace checker over provenance tokens (spec-state source() oracle) on generated histories","E-dyn",
   "every argument of every user function executed in generated histories is compared, by token identity, with the value the spec state says must be delivered (nearest provider / nearest decorator, per resolution scope); held on the executions produced","spec state of DESIGN 5; generator bounds; decorator-mediated cycles excluded (DESIGN 10.1)"),
 "C02":("exploration","execution counters and open-set on the boundary event log + token identity","E-dyn",
   "per registration: at most one successful execution, never entered while open, all consumers hold the same instance; judged on every execution of generated histories incl. retries after faults","as C01"),
 "C03":("exploration","may/must dependency-closure check of every execution against the spec state","E-dyn",
   "every user-function entry must happen inside an Invoke and inside the may-closure of the invoked function; on success the must-closure is complete; soft edges never justify an execution","may is an over-, must an under-approximation (DESIGN 5)"),
 "C04":("exploration","three-valued fault-free availability oracle (avail) vs. Invoke verdict class and optional zero values","E-dyn",
   "Invoke verdicts and optional zeros compared with the availability recursion on gapped dependency graphs; only yes/no answers are judged, unknown ones are counted","optional keys under decorators and decorator-mediated cycles are unknown by construction"),
 "C07":("fault_enumeration","fault schedules injected by the harness-owned functions; taint, retry and root-cause rules on the event log","E-dyn",
   "errors and panics injected on 1st/2nd/every execution of random subsets of functions, followed by retries; tainted tokens must never reach a consumer, failures must surface, failed functions re-run","faults are those of user functions only (dig has no I/O); error and panic values include ones that wrap another container's dig error (F15 fixed, F16 known finding)"),
 "C08":("exploration","C01/C04 oracles on a scope-heavy profile (trees up to 5 scopes, Export, late scope creation, invokes from every scope)","E-dyn",
   "visibility and nearest-wins judged through provenance of every argument and verdict class from every scope","as C01"),
 "C09":("exploration","key-exact source() oracle + duplicate verdict table on colliding type/name/group/As universes","E-dyn",
   "3 types x 3 names x 3 groups so every request has near-miss candidates; duplicates must be rejected, non-duplicates accepted, As values only under the listed interfaces","As is combined with result objects only for non-group fields (group-tagged fields ignore it)"),
 "C10":("exploration","multiset equality of group slices with the visible feeders' tokens","E-dyn",
   "every non-soft undecorated group argument compared as a multiset with the union of all visible feeders' outputs; feeder execution counters","group order never compared"),
 "C11":("exploration","lower/upper bound multisets for soft slices + closure check without soft edges","E-dyn",
   "soft slices bounded below by members of feeders done before the Invoke or required by sibling fields, above by members of executed visible feeders; nothing may run only because of a soft edge","only groups without enclosing decorators"),
 "C12":("exploration","source() with decorator layer, decorator counters, Decorate verdict table","E-dyn",
   "consumers below a decorator must hold the nearest decorator's output, the decorator its undecorated (or outer-decorated) input; one decorator per key and scope; decorators run at most once","decorator-mediated cycles excluded statically (DESIGN 10.1)"),
 "C13":("fault_enumeration","error identity / errors.Is / RootCause / errors.As(dig.Error) / IsCycleDetected / PanicError table on faulted and rejection-heavy histories","E-dyn",
   "every error value returned by Provide/Decorate/Invoke and every escaping panic classified with public predicates only and compared with the failure the harness injected or the rejection cause it constructed","message text never compared; RootCause identity / IsCycleDetected for user errors that wrap another container's dig error are the known findings F16 and F25 (KNOWN_FINDINGS.txt)"),
 "C18":("exploration","expected Info entry lists computed from the signature spec, compared through Input/Output String()","E-dyn",
   "Provide/Decorate/Invoke Info structs compared entry by entry with the list derived from the function spec (nested objects flattened, variadic and error dropped, As expanded); untouched on rejection","ID injectivity is checked by the pool engine when built"),
 "C05":("exploration","real cycle search on every small digraph via hook (exhaustive n<=5) + exhaustive/sampled dig programs under the strict/permissive cycle-graph oracle, child process per batch","E-graph + E-dyn",
   "three layers: every digraph with <=5 nodes and sampled larger ones pushed through the real search with an independent acyclicity reference and path validation; every dig program with <=3 constructors over 4 scope trees x scope assignment x Export x Provide order x scope timing x Defer (thorough; stratified sample in quick); sampled larger cyclic programs; verdicts judged by must/may cycle rules, process survival and bounded call depth","termination is restated as bounded recursion depth and process survival (a dead worker is a violation with the history as witness)"),
 "C06":("exploration","differential runner: history vs. the same history without the calls the real container rejected","E-dyn x2",
   "every later observable (verdict classes, executions with abstracted provenance, Info, DOT text, String lines) must be identical with and without the rejected registrations; rejected functions must never execute","rejection-heavy profile: ~35% deliberately invalid inputs of 39 causes, duplicates, cycles in target and descendant scopes, multi-key decorator conflicts"),
 "C14":("exploration","grammar-generated garbage (values, signatures, struct tags, options) applied inside valid histories; recover at the API boundary + no-trace differential","E-dyn (garbage grammar)",
   "any panic escaping Provide/Decorate/Invoke/Visualize/String/option constructors is a violation; rejected inputs must leave no trace (differential); 39 named invalid causes are additionally checked for rejection with a dig error","nil Option values and re-entrant use are not generated; huge zero-size arrays, self-referential values and VisualizeError of every failure origin are"),
 "C15":("exploration","metamorphic differential: same history under re-drawn signature encodings (In/Out nesting, variadic, option vs tag)","E-dyn x2",
   "verdict class, execution set, abstracted provenance of every argument and Info lists must agree between the two encodings, faults included","functions using As and soft groups are not re-encoded (evaluation order of soft fields is encoding dependent by design)"),
 "C16":("exploration","metamorphic differential: permuted registration runs, moved scope creations, toggled Defer","E-dyn x2",
   "the block stays all-accepted, every Invoke keeps its success/failure verdict and every successful Invoke its wiring; Defer toggled only when no cycle is ever reported","no faults, no soft groups; what a failing Invoke built before failing is not compared; two order dependences inherent in dig's design are known findings (F22 decorator-mediated cycles, F23 partial work before a dependency failure)"),
 "C17":("exploration","metamorphic differential: DryRun container vs normal container","E-dyn x2",
   "the dry container must execute nothing in any scope and report the same verdict class, Info and DOT for every operation as the normal container with all faults off","callbacks not compared"),
 "C19":("exploration","own strict DOT + HTML-label parser; structural comparison with the spec state; failure pictures validated against the demand paths of the spec","E-pool",
   "clusters <-> accepted constructors (results, dependency edges, dashed iff optional, group nodes and members); with the error of a failed Invoke: root cause = failing constructor or missing types, transitive failures form demand paths to it, everything else pruned; CanVisualizeError judged","declared pool functions give distinct constructor ids; failures inside decorators and cycle errors are outside the claim"),
 "C20":("fault_enumeration","callback stream interleaved with the execution log; mock clock via hook","E-dyn",
   "exactly one callback right after each execution and never otherwise; Error nil / root cause identity / PanicError; Runtime equals the mock-clock advance made inside the function","unrecovered panics: only presence is checked"),
}
tiny={}
for i in ("C01","C03","C12"): tiny[i]="; thorough also runs EVERY history of <=4 API calls over a fixed 43-call alphabet (two types, one value group, root/child scope, Export, 4 decorators, 4 invokes; DESIGN 15.1), quick a sample of them"
for i in ("C02","C04","C05","C08","C09","C10","C11"): tiny[i]="; thorough also runs EVERY history of <=3 API calls over a fixed 43-call alphabet (DESIGN 15.1) and 800k sampled 4-call ones, quick a sample"
for i in ("C07","C13","C20"): tiny[i]="; thorough also runs EVERY history of <=3 API calls over a fixed 43-call alphabet x EVERY single fault (position x {error, panic, error/panic value wrapping another container's dig error} x {first, every execution}) with retries (DESIGN 15.1-15.2)"
for i in ("C06","C16","C17"): tiny[i]="; thorough also runs EVERY history of <=3 API calls over a fixed 43-call alphabet as a differential pair (DESIGN 15.1)"
checks=[]
for i in ids:
    if i in claimed:
        cat,tech,eng,text,note=claimed[i]
        text+=tiny.get(i,"")
        text+="; both tiers also run histories of sizes beyond the usual (profiles large*/largegraph*: 20-90 constructors, scope chains up to 12, 8-16 results or parameters, 30-70 Invokes; DESIGN 16.11)"
        if i=="C05": text+="; sampled digraphs go up to 260 nodes and every search runs under a logical budget of successor look-ups (hook VerifIsAcyclicSteps)"
        if i in tiny: tech+=" + bounded-exhaustive short histories"
        checks.append({"property_id":i,"quick_cmd":f"./verif.sh check {i} quick","thorough_cmd":f"./verif.sh check {i} thorough",
          "evidence_file":f"/verif/evidence/{i}.json","replay_cmd_template":"./verif.sh replay {path}","engine":eng,
          "level_claimed":{"category":cat,"text":text,"design_ref":"DESIGN.md section 6 "+i},"level_note":note,"technique":tech})
na=[{"property_id":i,"reason":"check not built yet (work in progress; see DESIGN.md section 13)"} for i in ids if i not in claimed]
m={"version":1,"setup_cmd":"./verif.sh setup",
 "hooks":{"guard":"verif","enable":"go build -tags verif (done by ./verif.sh; harness module replaces go.uber.org/dig with /repo)",
  "baseline_off_cmd":"cd /repo && GOFLAGS=-mod=mod GOPROXY=off GOSUMDB=off GOTOOLCHAIN=local go test -vet=off -count=1 ./...",
  "source_commits":["3162adb","d439382","9ab649e"],"add_only":True},
 "engines":[{"name":"E-dyn","path":"/verif/harness","serves_properties":[c["property_id"] for c in checks],"kind_free_text":"runtime monitor: reflect-materialised user functions with provenance tokens, online spec-state trace checker, differential runner, child process per batch"},
  {"name":"E-pool","path":"/verif/harness/pool","serves_properties":["C18","C19","C20"],"kind_free_text":"384 generated declared functions (distinct code pointers) forwarding to the monitor body: constructor ids, locations, callback names"},
  {"name":"E-graph","path":"/verif/harness/c05.go","serves_properties":["C05"],"kind_free_text":"hooks VerifIsAcyclic / VerifIsAcyclicSteps: the real cycle search on arbitrary digraphs (all up to 5 nodes, sampled up to 260 nodes) under a logical budget of successor look-ups"}],
 "checks":checks,"not_applicable":na,
 "notes":"Runtime monitoring only. Exit 0 held / 1 VIOLATION / 3 INCONCLUSIVE. KNOWN_FINDINGS.txt lists 28 genuine defects observed by the monitors: 23 repaired by fix: commits in /repo, 5 recorded as known findings (F16, F25, F28 for C13; F22, F23 for C16). DESIGN.md sections 14 to 16 are authoritative for what exists."}
json.dump(m,open('/verif/MANIFEST.json','w'),indent=1)
import jsonschema
jsonschema.validate(m,json.load(open('/root/.vp/MANIFEST.schema.json')))
print("manifest ok:",len(checks),"claimed,",len(na),"not claimed")
